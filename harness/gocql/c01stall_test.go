//go:build verif && go1.21

package gocql

// A response whose body arrives in pieces separated by pauses longer than the connection's read timeout:
// the driver resumes the body read after every expired read deadline (five attempts); the frame boundary
// must survive that, whatever happened to the caller of the stalled response.

import (
	"bytes"
	"errors"
	"fmt"
	"log"
	"os"
	"sync"
	"testing"
	"time"

	"pgregory.net/rapid"
	"verif.local/cqlspec"
	"verif.local/vnode"
	"verif.local/vstats"
	"verif.local/vx"
)

type vxStallRound struct {
	Blob   int   `json:"blob"`   // size of the blob cell of the stalled response
	Cuts   []int `json:"cuts"`   // offsets (per mille of the frame length) where the frame is cut: 1 or 2 cuts
	Pause  []int `json:"pause"`  // pause after each cut, per cent of the timeout
	Riders int   `json:"riders"` // requests issued shortly before the last piece, answered in the same write as it
	Probes int   `json:"probes"` // requests issued one after the other once the stalled frame is complete
}

type vxStallCase struct {
	Proto  int            `json:"proto"`
	Rounds []vxStallRound `json:"rounds"`
	// Long > 0: instead of the rounds, one response whose body stops for 6.5 read timeouts - longer than the five
	// attempts the driver makes - after its first Long fake frames (the blob is made of byte patterns that read as
	// frames for streams 1..3). The driver may give the connection up; it must not go on reading frames from the
	// middle of that body.
	Long int `json:"long,omitempty"`
	// Pushed > 0: instead of the rounds, frames nobody waits for arrive on an idle connection (1: an EVENT on
	// stream -1, 2: a void result on a stream without a request, 3: both); 0.6 read timeouts later a request is
	// sent, and it is answered 0.6 read timeouts after that - more than a read timeout after the pushed frame.
	Pushed int `json:"pushed,omitempty"`
}

const vxStallTimeout = 250 * time.Millisecond

func vxDrawStall(t *rapid.T) *vxStallCase {
	c := &vxStallCase{Proto: rapid.IntRange(1, 5).Draw(t, "proto")}
	switch rapid.IntRange(0, 7).Draw(t, "long") {
	case 0:
		c.Long = rapid.IntRange(1, 5).Draw(t, "long_n")
		return c
	case 1:
		c.Pushed = rapid.IntRange(1, 3).Draw(t, "pushed")
		return c
	}
	for i := rapid.IntRange(1, 2).Draw(t, "rounds"); i > 0; i-- {
		r := vxStallRound{Blob: rapid.SampledFrom([]int{0, 1, 9, 40, 300, 5000}).Draw(t, "blob"),
			Riders: rapid.IntRange(0, 2).Draw(t, "riders"), Probes: rapid.IntRange(1, 3).Draw(t, "probes")}
		ncuts := rapid.IntRange(1, 2).Draw(t, "ncuts")
		total := 0
		for j := 0; j < ncuts; j++ {
			r.Cuts = append(r.Cuts, rapid.IntRange(1, 999).Draw(t, "cut"))
			p := rapid.SampledFrom([]int{0, 30, 140, 160, 230}).Draw(t, "pause")
			if total+p > 330 {
				p = 30 // the whole frame within 3.6 timeouts, far from the driver's five attempts
			}
			total += p
			r.Pause = append(r.Pause, p)
		}
		c.Rounds = append(c.Rounds, r)
	}
	return c
}

type vxStallNode struct {
	mu   sync.Mutex
	held map[string]*vnode.ReqCtx
	// while a response is being written in pieces on a connection nothing else may be written on it (a server
	// does not interleave frames): the answers to the driver's heartbeats wait until the last piece has left
	splitting int
	deferred  []*vnode.ReqCtx
}

func (n *vxStallNode) onRequest(rc *vnode.ReqCtx) {
	if rc.Req.Kind != "QUERY" || len(rc.Req.Statement) < 6 || rc.Req.Statement[:5] != "LIST " {
		rc.Reply(&cqlspec.Response{Kind: "VOID"})
		return
	}
	tok := rc.Req.Statement[5:]
	n.mu.Lock()
	n.held[tok] = rc
	n.mu.Unlock()
}

func (n *vxStallNode) intercept(rc *vnode.ReqCtx) bool {
	if rc.Req.Kind != "OPTIONS" {
		return false
	}
	n.mu.Lock()
	defer n.mu.Unlock()
	if n.splitting == rc.Conn.ID {
		n.deferred = append(n.deferred, rc)
		return true
	}
	rc.Reply(&cqlspec.Response{Kind: "SUPPORTED", Supported: rc.Node.Supported})
	return true
}

func (n *vxStallNode) split(connID int) {
	n.mu.Lock()
	n.splitting = connID
	n.mu.Unlock()
}

// endSplit writes the last piece and then what had to wait for it.
func (n *vxStallNode) endSplit(rc *vnode.ReqCtx, last []byte) error {
	n.mu.Lock()
	defer n.mu.Unlock()
	n.splitting = -1
	err := rc.Conn.SendRaw(last)
	for _, d := range n.deferred {
		d.Reply(&cqlspec.Response{Kind: "SUPPORTED", Supported: d.Node.Supported})
	}
	n.deferred = nil
	return err
}

func (n *vxStallNode) take(tok string) *vnode.ReqCtx {
	n.mu.Lock()
	defer n.mu.Unlock()
	rc := n.held[tok]
	delete(n.held, tok)
	return rc
}

// vxStallPayload is the blob a token's row carries: bytes that would read as frame headers of the
// connection's protocol version if a frame boundary were lost.
func vxStallPayload(tok string, size, proto int) []byte {
	out := make([]byte, 0, size+16)
	for len(out) < size {
		h := cqlspec.Header{Version: proto, Response: true, Stream: 1 + len(out)%3, Op: cqlspec.OpResult, Length: 4}
		out = append(out, h.Bytes()...)
		out = append(out, 0, 0, 0, 1) // a void result
		out = append(out, tok...)
	}
	return out[:size]
}

func vxStallFrame(rc *vnode.ReqCtx, tok string, blob int) ([]byte, error) {
	rows := vnode.RowsResponse([]cqlspec.Column{
		{Keyspace: "ks", Table: "t", Name: "tok", Type: cqlspec.Scalar(cqlspec.Varchar)},
		{Keyspace: "ks", Table: "t", Name: "payload", Type: cqlspec.Scalar(cqlspec.Blob)}},
		[][]cqlspec.Value{{cqlspec.BytesValue([]byte(tok)), cqlspec.BytesValue(vxStallPayload(tok, blob, rc.Req.Header.Version))}})
	r := *rows
	r.Version, r.Stream = rc.Req.Header.Version, rc.Req.Header.Stream
	return r.Frame(nil)
}

type vxStallResult struct {
	tok     string
	got     string
	payload []byte
	err     error
}

func vxRunStall(c *vxStallCase, k *vstats.Case) error {
	if c.Proto < 1 || c.Proto > 5 || (len(c.Rounds) == 0 && c.Long <= 0 && (c.Pushed <= 0 || c.Pushed > 3)) {
		return nil
	}
	cl := vnode.NewCluster(vxSpecs(1, 1))
	node := &vxStallNode{held: map[string]*vnode.ReqCtx{}, splitting: -1}
	cl.Nodes()[0].Handler = node.onRequest
	cl.Nodes()[0].Intercept = node.intercept
	s, err := vxClusterConfig(cl, c.Proto, func(cfg *ClusterConfig) {
		cfg.Timeout = vxStallTimeout
		cfg.ConnectTimeout = 5 * time.Second
		if os.Getenv("VX_DEBUG") != "" {
			cfg.Logger = log.New(os.Stderr, "drv ", log.Lmicroseconds)
		}
	}).CreateSession()
	if err != nil {
		return fmt.Errorf("harness: CreateSession: %v", err)
	}
	defer s.Close()
	conns0, open0 := len(cl.Nodes()[0].Conns()), cl.Nodes()[0].OpenConns()

	ask := func(tok string, res chan<- vxStallResult) {
		var got string
		var payload []byte
		iter := s.Query("LIST " + tok).Iter()
		iter.Scan(&got, &payload)
		res <- vxStallResult{tok: tok, got: got, payload: payload, err: iter.Close()}
	}
	waitArrival := func(tok string) bool {
		for deadline := time.Now().Add(5 * time.Second); time.Now().Before(deadline); time.Sleep(200 * time.Microsecond) {
			node.mu.Lock()
			_, ok := node.held[tok]
			node.mu.Unlock()
			if ok {
				return true
			}
		}
		return false
	}
	judge := func(r vxStallResult, blob int, what string) error {
		if r.err == nil {
			if r.got != r.tok {
				return fmt.Errorf("%s %s received the row of %q", what, r.tok, r.got)
			}
			if want := vxStallPayload(r.tok, blob, c.Proto); string(r.payload) != string(want) {
				return fmt.Errorf("%s %s: payload of %d bytes read back as %d bytes %x", what, r.tok, len(want), len(r.payload), vxHead(r.payload, 24))
			}
			return nil
		}
		if r.got != "" {
			return fmt.Errorf("%s %s: row %q together with error %v", what, r.tok, r.got, r.err)
		}
		return nil
	}
	if c.Pushed > 0 && c.Long <= 0 {
		// learn the connection that carries requests
		wres := make(chan vxStallResult, 1)
		go ask("warm", wres)
		if !waitArrival("warm") {
			return fmt.Errorf("harness: request warm never reached the node")
		}
		wrc := node.take("warm")
		if f, err := vxStallFrame(wrc, "warm", 3); err != nil {
			return fmt.Errorf("harness: %v", err)
		} else if err := wrc.Conn.SendRaw(f); err != nil {
			return fmt.Errorf("harness: write: %v", err)
		}
		if r := <-wres; r.err != nil || r.got != "warm" {
			return fmt.Errorf("harness: warm-up request: %q, %v", r.got, r.err)
		}
		t0 := time.Now()
		if c.Pushed&1 != 0 {
			if err := wrc.Conn.Send(&cqlspec.Response{Kind: "EVENT", Version: c.Proto, Stream: -1, EventType: "STATUS_CHANGE", Change: "UP", AddrHex: "0a0000fe", Port: 9042}); err != nil {
				return fmt.Errorf("harness: write: %v", err)
			}
		}
		if c.Pushed&2 != 0 {
			if err := wrc.Conn.Send(&cqlspec.Response{Kind: "VOID", Version: c.Proto, Stream: 101}); err != nil {
				return fmt.Errorf("harness: write: %v", err)
			}
		}
		time.Sleep(time.Until(t0.Add(vxStallTimeout * 6 / 10)))
		res := make(chan vxStallResult, 1)
		sent := time.Now()
		go ask("after_push", res)
		if !waitArrival("after_push") {
			return fmt.Errorf("harness: request after_push never reached the node")
		}
		rc := node.take("after_push")
		time.Sleep(time.Until(t0.Add(vxStallTimeout * 12 / 10)))
		f, err := vxStallFrame(rc, "after_push", 9)
		if err != nil {
			return fmt.Errorf("harness: %v", err)
		}
		werr := rc.Conn.SendRaw(f)
		late := time.Since(sent) > vxStallTimeout*9/10
		select {
		case r := <-res:
			if r.err == nil {
				k.NonTrivial()
				k.Class(fmt.Sprintf("unsolicited frame kind %d, then a request answered more than a read timeout later", c.Pushed))
				return judge(r, 9, "request")
			}
			if late && errors.Is(r.err, ErrTimeoutNoResponse) {
				k.Class("pushed: machine too slow, the request's own timeout expired")
				return nil
			}
			return fmt.Errorf("an unsolicited frame (kind %d) arrived on an idle connection; a request sent 0.6 read timeouts later and answered 0.6 read timeouts after that (%v after it was sent, timeout %v) failed with %v (write of the answer: %v) - the read deadline armed for the unsolicited frame's body was left standing",
				c.Pushed, time.Since(sent).Round(time.Millisecond), vxStallTimeout, r.err, werr)
		case <-time.After(10 * time.Second):
			return fmt.Errorf("a request sent after an unsolicited frame did not return within 10 s (hang)")
		}
	}
	if c.Long > 0 {
		k.NonTrivial()
		k.Class("body stalled beyond the driver's five read attempts")
		stok := "stall_long"
		sres := make(chan vxStallResult, 1)
		go ask(stok, sres)
		if !waitArrival(stok) {
			return fmt.Errorf("harness: request %s never reached the node", stok)
		}
		rc := node.take(stok)
		frame, err := vxStallFrame(rc, stok, 600)
		if err != nil {
			return fmt.Errorf("harness: %v", err)
		}
		pay := vxStallPayload(stok, 600, c.Proto)
		period := cqlspec.HeaderSize(c.Proto) + 4 + len(stok)
		at := bytes.Index(frame, pay[:period])
		if at < 0 {
			return fmt.Errorf("harness: payload not found in the frame")
		}
		cut := at + period*(1+c.Long%5)
		node.split(rc.Conn.ID)
		if err := rc.Conn.SendRaw(frame[:cut]); err != nil {
			return fmt.Errorf("harness: write: %v", err)
		}
		time.Sleep(vxStallTimeout * 56 / 10) // the five attempts are over
		// three requests that will hold the stream ids the fake frames name
		var ptoks []string
		pres := make(chan vxStallResult, 3)
		for j := 0; j < 3; j++ {
			tok := fmt.Sprintf("holder_%d", j)
			ptoks = append(ptoks, tok)
			go ask(tok, pres)
		}
		time.Sleep(vxStallTimeout * 9 / 10)
		node.endSplit(rc, frame[cut:]) // the rest of the body arrives now (an error if the driver closed the connection)
		time.Sleep(20 * time.Millisecond)
		for _, tok := range ptoks {
			if prc := node.take(tok); prc != nil {
				if f, err := vxStallFrame(prc, tok, 17); err == nil {
					prc.Conn.SendRaw(f)
				}
			}
		}
		for range ptoks {
			select {
			case r := <-pres:
				if r.err == nil && r.got != r.tok {
					return fmt.Errorf("a response body stalled for 6.5 read timeouts; afterwards request %s, in flight when the rest of that body arrived, was answered with %q (bytes of the stalled body were read as frames)", r.tok, r.got)
				}
				if err := judge(r, 17, "request"); err != nil {
					return err
				}
			case <-time.After(10 * time.Second):
				return fmt.Errorf("a request issued after the stalled body did not return within 10 s (hang)")
			}
		}
		select {
		case sr := <-sres:
			if sr.err == nil {
				return fmt.Errorf("the caller of the stalled response got a result although its read timeout (and five read attempts) were over")
			}
		case <-time.After(10 * time.Second):
			return fmt.Errorf("the caller of the stalled response did not return within 10 s (hang)")
		}
		// the session recovers: a probe succeeds within a few attempts (the connection may have been replaced)
		var lastErr error
		for j := 0; j < 8; j++ {
			tok := fmt.Sprintf("probe_long_%d", j)
			pr := make(chan vxStallResult, 1)
			go ask(tok, pr)
			go func() {
				if waitArrival(tok) {
					if prc := node.take(tok); prc != nil {
						if f, err := vxStallFrame(prc, tok, 17); err == nil {
							prc.Conn.SendRaw(f)
						}
					}
				}
			}()
			select {
			case r := <-pr:
				if err := judge(r, 17, "probe"); err != nil {
					return err
				}
				if r.err == nil {
					return nil
				}
				lastErr = r.err
			case <-time.After(10 * time.Second):
				return fmt.Errorf("probe %s did not return within 10 s (hang)", tok)
			}
			time.Sleep(20 * time.Millisecond)
		}
		return fmt.Errorf("after a response body that stalled for 6.5 read timeouts 8 probes in a row failed; last error: %v", lastErr)
	}
	for ri, rd := range c.Rounds {
		if len(rd.Cuts) == 0 || len(rd.Cuts) != len(rd.Pause) {
			return nil
		}
		stok := fmt.Sprintf("stall_%d", ri)
		sres := make(chan vxStallResult, 1)
		go ask(stok, sres)
		if !waitArrival(stok) {
			return fmt.Errorf("harness: request %s never reached the node", stok)
		}
		rc := node.take(stok)
		frame, err := vxStallFrame(rc, stok, rd.Blob)
		if err != nil {
			return fmt.Errorf("harness: %v", err)
		}
		hdr := cqlspec.HeaderSize(c.Proto)
		// cut points, increasing, at least one body byte before the first pause that matters
		var cuts []int
		for _, pm := range rd.Cuts {
			at := 1 + pm*(len(frame)-2)/1000
			if len(cuts) > 0 && at <= cuts[len(cuts)-1] {
				at = cuts[len(cuts)-1] + 1
			}
			if at >= len(frame) {
				break
			}
			cuts = append(cuts, at)
		}
		node.split(rc.Conn.ID)
		start := time.Now()
		longInBody := 0
		prev := 0
		rres := make(chan vxStallResult, rd.Riders)
		var riderToks []string
		for i, at := range cuts {
			if err := rc.Conn.SendRaw(frame[prev:at]); err != nil {
				return fmt.Errorf("harness: write: %v", err)
			}
			prev = at
			pause := time.Duration(rd.Pause[i]) * vxStallTimeout / 100
			pauseStart := time.Now()
			if i == len(cuts)-1 && rd.Riders > 0 {
				// the riders start a little before the last piece leaves, while the driver waits for it
				if lead := 40 * time.Millisecond; pause > lead {
					time.Sleep(pause - lead)
				}
				for j := 0; j < rd.Riders; j++ {
					tok := fmt.Sprintf("rider_%d_%d", ri, j)
					riderToks = append(riderToks, tok)
					go ask(tok, rres)
				}
				for _, tok := range riderToks {
					if !waitArrival(tok) {
						return fmt.Errorf("harness: request %s never reached the node", tok)
					}
				}
			}
			if rest := pause - time.Since(pauseStart); rest > 0 {
				time.Sleep(rest)
			}
			if at > hdr && rd.Pause[i] > 100 {
				longInBody++
			}
		}
		last := append([]byte{}, frame[prev:]...)
		for _, tok := range riderToks {
			rrc := node.take(tok)
			f, err := vxStallFrame(rrc, tok, 33)
			if err != nil {
				return fmt.Errorf("harness: %v", err)
			}
			last = append(last, f...)
		}
		if err := node.endSplit(rc, last); err != nil {
			return fmt.Errorf("harness: write: %v", err)
		}
		took := time.Since(start)
		if took > 4*vxStallTimeout {
			// the machine stretched the pauses towards the five read attempts the driver makes: nothing to judge
			k.Class("pauses stretched by load (not judged)")
			return nil
		}
		if longInBody > 0 {
			k.NonTrivial()
			k.Class(fmt.Sprintf("body stalled beyond the read timeout x%d", longInBody))
		} else {
			k.Class("no stall beyond the read timeout inside the body")
		}
		collect := time.After(10 * time.Second)
		var sr vxStallResult
		select {
		case sr = <-sres:
		case <-collect:
			return fmt.Errorf("round %d: the caller of the stalled response did not return within 10 s (hang)", ri)
		}
		if err := judge(sr, rd.Blob, "caller"); err != nil {
			return fmt.Errorf("round %d: %v", ri, err)
		}
		if sr.err != nil && !errors.Is(sr.err, ErrTimeoutNoResponse) {
			return fmt.Errorf("round %d: the caller of the stalled response got %v (neither its row nor the driver's timeout)", ri, sr.err)
		}
		k.Class("stalled caller: " + vxErrClass(sr.err))
		for range riderToks {
			select {
			case r := <-rres:
				if err := judge(r, 33, "rider"); err != nil {
					return fmt.Errorf("round %d: %v", ri, err)
				}
				if r.err != nil && !errors.Is(r.err, ErrTimeoutNoResponse) {
					return fmt.Errorf("round %d: rider %s, answered right behind the stalled body, got %v", ri, r.tok, r.err)
				}
				k.Class("rider: " + vxErrClass(r.err))
			case <-collect:
				return fmt.Errorf("round %d: a rider did not return within 10 s (hang)", ri)
			}
		}
		// the connection must still be in step: requests issued now are answered at once
		okProbes := 0
		var lastErr error
		for j := 0; j < rd.Probes+2; j++ {
			tok := fmt.Sprintf("probe_%d_%d", ri, j)
			pres := make(chan vxStallResult, 1)
			go ask(tok, pres)
			go func() {
				if waitArrival(tok) {
					if prc := node.take(tok); prc != nil {
						if f, err := vxStallFrame(prc, tok, 17); err == nil {
							prc.Conn.SendRaw(f)
						}
					}
				}
			}()
			select {
			case r := <-pres:
				if err := judge(r, 17, "probe"); err != nil {
					return fmt.Errorf("round %d: %v", ri, err)
				}
				if r.err == nil {
					okProbes++
				} else {
					lastErr = r.err
				}
			case <-time.After(10 * time.Second):
				return fmt.Errorf("round %d: probe %s did not return within 10 s (hang)", ri, tok)
			}
			if okProbes >= rd.Probes {
				break
			}
		}
		if okProbes < rd.Probes && os.Getenv("VX_DEBUG") != "" {
			for _, lr := range cl.AllLogs() {
				st := ""
				if lr.Req != nil {
					st = lr.Req.Kind + " " + lr.Req.Statement
				}
				fmt.Fprintf(os.Stderr, "node %s conn %d stream %d %s %s\n", lr.At.Format("05.000000"), lr.ConnID, lr.Stream, st, lr.Err)
			}
		}
		if okProbes < rd.Probes {
			return fmt.Errorf("round %d: after a response body that arrived in %d pieces (pauses %v %% of the timeout) only %d of %d requests, each answered at once, got their rows; last error: %v (connections: %d opened, %d open; before %d, %d; the stalled caller got %v)", ri, len(cuts)+1, rd.Pause, okProbes, rd.Probes+2, lastErr, len(cl.Nodes()[0].Conns()), cl.Nodes()[0].OpenConns(), conns0, open0, sr.err)
		}
		if conns, open := len(cl.Nodes()[0].Conns()), cl.Nodes()[0].OpenConns(); conns != conns0 || open != open0 {
			return fmt.Errorf("round %d: every frame was well-formed and complete within %v, yet the driver closed or replaced a connection (%d opened, %d open; before %d, %d)", ri, took, conns, open, conns0, open0)
		}
	}
	return nil
}

func vxHead(b []byte, n int) []byte {
	if len(b) > n {
		return b[:n]
	}
	return b
}

func TestVxC01Stall(t *testing.T) {
	vx.Check(t, vx.Prop{
		ID: "C01", Part: "TestVxC01Stall",
		Rule: "protocol 1..5, read timeout 250 ms, 1..2 rounds: one response (blob cell of 0..5000 bytes made of byte patterns that read as frame headers) written in 2..3 pieces cut anywhere, pauses of 0/30/140/160/230 % of the timeout between them (whole frame within 3.6 timeouts; a run where load stretched that beyond 4 is not judged), 0..2 riders issued during the last pause and answered in the same write as the last piece, then 1..3 probes; oracle: own row and payload or the driver's timeout only, probes succeed, no connection closed or replaced; non-trivial = a pause beyond the timeout after at least one body byte; distinct by protocol, blob size, cuts, pauses, riders; or (one case in eight) frames nobody waits for (an EVENT on stream -1, a void result on a stream without request) arrive on the idle connection, a request follows 0.6 timeouts later and is answered 1.2 timeouts after the pushed frame: it must get its answer (a request whose own timeout expired because the machine was slow is counted, not judged)",
		Draw: func(t *rapid.T) interface{} { return vxDrawStall(t) },
		New:  func() interface{} { return &vxStallCase{} },
		Run: func(ci interface{}, k *vstats.Case) error {
			return vxRunStall(ci.(*vxStallCase), k)
		},
	})
}
