//go:build verif && go1.21

// C10 - replica sets for a token equal Cassandra's placement.
// White-box: newTokenRing, getStrategy, placementStrategy.replicaMap,
// tokenRingReplicas.replicasFor, and (plumbing) tokenAwareHostPolicy with injected
// keyspace metadata. Reference: verif.local/cqlspec placement (Cassandra's
// calculateNaturalEndpoints, two NTS formulations that must agree as sets).
package gocql

import (
	"fmt"
	"github.com/gocql/gocql/internal/lru"
	"sort"
	"strings"
	"sync/atomic"
	"testing"
	"time"

	"pgregory.net/rapid"
	"verif.local/cqlspec"
	"verif.local/vstats"
	"verif.local/vx"
)

type vxC10Node struct {
	DC     int   `json:"dc"`
	Rack   int   `json:"rack"`
	Tokens []int `json:"tokens"` // ranks, distinct over the whole ring
}

type vxC10DCRF struct {
	DC  int  `json:"dc"` // 0..3; the ring only uses 0..2
	RF  int  `json:"rf"`
	Str bool `json:"str"`
}

type vxC10Case struct {
	Part      int         `json:"part"` // 0 murmur3, 1 byte-ordered, 2 random
	Nodes     []vxC10Node `json:"nodes"`
	NTS       bool        `json:"nts"`
	LongClass bool        `json:"long_class"`
	RF        int         `json:"rf"` // SimpleStrategy
	RFStr     bool        `json:"rf_str"`
	DCs       []vxC10DCRF `json:"dcs"` // NetworkTopologyStrategy
}

func vxC10Draw(t *rapid.T) *vxC10Case {
	c := &vxC10Case{Part: rapid.IntRange(0, 2).Draw(t, "part")}
	n := rapid.IntRange(1, 8).Draw(t, "nodes")
	nd := rapid.IntRange(1, 3).Draw(t, "dcs")
	nr := rapid.IntRange(1, 3).Draw(t, "racks")
	maxTok := rapid.IntRange(1, 4).Draw(t, "maxtok")
	used := map[int]bool{}
	for i := 0; i < n; i++ {
		nodeDC := rapid.IntRange(0, nd-1).Draw(t, "dc")
		// uneven racks: the smaller of two draws
		a, b := rapid.IntRange(0, nr-1).Draw(t, "rack"), rapid.IntRange(0, nr-1).Draw(t, "rack")
		if b < a {
			a = b
		}
		k := rapid.IntRange(1, maxTok).Draw(t, "ntok")
		if i > 0 && rapid.IntRange(0, 7).Draw(t, "tokenless") == 0 {
			// a node that owns no token (started with join_ring=false: a coordinator only; the driver reads it
			// from system.local like any other node): it is a host of the ring, and a replica of nothing
			k = 0
		}
		node := vxC10Node{DC: nodeDC, Rack: a}
		for j := 0; j < k; j++ {
			r := rapid.IntRange(0, vxRanks-1).Draw(t, "rank")
			for used[r] { // next free rank, by construction distinct
				r = (r + 1) % vxRanks
			}
			used[r] = true
			node.Tokens = append(node.Tokens, r)
		}
		c.Nodes = append(c.Nodes, node)
	}
	c.NTS = rapid.IntRange(0, 3).Draw(t, "strategy") != 0 // NTS is the richer algorithm
	c.LongClass = rapid.Bool().Draw(t, "long")
	if !c.NTS {
		c.RF = rapid.IntRange(0, 9).Draw(t, "rf")
		c.RFStr = rapid.Bool().Draw(t, "rfstr")
		return c
	}
	for dc := 0; dc <= 3; dc++ {
		rf := rapid.IntRange(-2, 5).Draw(t, "dcrf") // <0: datacenter not named by the keyspace
		if rf < 0 {
			continue
		}
		c.DCs = append(c.DCs, vxC10DCRF{DC: dc, RF: rf, Str: rapid.Bool().Draw(t, "dcstr")})
	}
	return c
}

// vxC10Known* are the narrow classes of confirmed defects of topology.go.
const (
	vxC10KnownDup   = "C10-nts-dup-vnode"
	vxC10KnownPanic = "C10-nts-absent-dc-panic"
)

func vxCatch(f func()) (msg string, panicked bool) {
	defer func() {
		if r := recover(); r != nil {
			msg, panicked = fmt.Sprint(r), true
		}
	}()
	f()
	return "", false
}

func vxC10Run(c *vxC10Case, k *vstats.Case) error {
	if len(c.Nodes) == 0 || c.Part < 0 || c.Part > 2 {
		return nil
	}
	// ---- the abstract ring and the driver's ring
	var ring []cqlspec.RingEntry
	hosts := make([]*HostInfo, len(c.Nodes))
	byName := map[string]*HostInfo{}
	ringDCs := map[string]int{} // dc -> nodes
	vnodes := false
	seenRank := map[int]bool{}
	tokenless := 0
	for i, n := range c.Nodes {
		for _, r := range n.Tokens {
			if r < 0 || r >= vxRanks || seenRank[r] {
				return nil
			}
			seenRank[r] = true
			ring = append(ring, cqlspec.RingEntry{Token: int64(r), Node: vxNodeName(i), DC: vxDCName(n.DC), Rack: vxRackName(n.Rack)})
		}
		if len(n.Tokens) > 1 {
			vnodes = true
		}
		hosts[i] = vxMkHost(i, n.DC, n.Rack, c.Part, n.Tokens, NodeUp)
		byName[vxNodeName(i)] = hosts[i]
		if len(n.Tokens) == 0 {
			tokenless++ // Cassandra's placement knows token owners only
			continue
		}
		ringDCs[vxDCName(n.DC)]++
	}
	if len(ring) == 0 {
		return nil // outside the generated domain (at least one node owns a token)
	}
	if tokenless > 0 {
		k.Class("ring has a host without tokens")
	}
	tr, err := newTokenRing(vxPartNames[c.Part], hosts)
	if err != nil {
		return fmt.Errorf("newTokenRing(%s): %v", vxPartNames[c.Part], err)
	}
	if err := vxTokensAscend(tr.partitioner, c.Part); err != nil {
		return err
	}
	// the ring must be sorted by token and name each token's owner
	sorted := append([]cqlspec.RingEntry(nil), ring...)
	sort.Slice(sorted, func(i, j int) bool { return sorted[i].Token < sorted[j].Token })
	if len(tr.tokens) != len(sorted) {
		return fmt.Errorf("token ring has %d entries for %d tokens", len(tr.tokens), len(sorted))
	}
	for i, e := range sorted {
		if tr.tokens[i].host.hostId != e.Node || tr.tokens[i].token.String() != tr.partitioner.ParseString(vxTokenString(c.Part, int(e.Token))).String() {
			return fmt.Errorf("token ring entry %d is %v, want token %s of %s", i, tr.tokens[i], vxTokenString(c.Part, int(e.Token)), e.Node)
		}
	}

	// ---- keyspace
	ks := &KeyspaceMetadata{Name: "ks", StrategyClass: vxStrategyClass(c.NTS, c.LongClass), StrategyOptions: map[string]interface{}{"class": vxStrategyClass(c.NTS, c.LongClass)}}
	var rf map[string]int // nil for SimpleStrategy
	unknownDC, rfOverDC, absentWithRF, uncovered := false, false, false, false
	if c.NTS {
		rf = map[string]int{}
		for _, d := range c.DCs {
			if d.RF < 0 || d.DC < 0 {
				return nil
			}
			if _, dup := rf[vxDCName(d.DC)]; dup {
				return nil
			}
			rf[vxDCName(d.DC)] = d.RF
			ks.StrategyOptions[vxDCName(d.DC)] = vxRFOpt(d.RF, d.Str)
			if ringDCs[vxDCName(d.DC)] == 0 {
				unknownDC = true
				if d.RF > 0 {
					absentWithRF = true
				}
			} else if d.RF > ringDCs[vxDCName(d.DC)] {
				rfOverDC = true
			}
		}
		for dc := range ringDCs {
			if rf[dc] == 0 {
				uncovered = true
			}
		}
	} else {
		if c.RF < 0 {
			return nil
		}
		ks.StrategyOptions["replication_factor"] = vxRFOpt(c.RF, c.RFStr)
		rfOverDC = c.RF > len(c.Nodes)-tokenless
	}
	if vnodes || len(ringDCs) >= 2 || rfOverDC || unknownDC {
		k.NonTrivial()
	}
	k.Class(fmt.Sprintf("part=%d", c.Part))
	if c.NTS {
		k.Class(fmt.Sprintf("nts dcs_ring=%d vnodes=%v", len(ringDCs), vnodes))
		if unknownDC {
			k.Class("nts keyspace names a dc absent from the ring")
		}
		if uncovered {
			k.Class("nts ring has a dc without replicas")
		}
	} else {
		k.Class(fmt.Sprintf("simple vnodes=%v", vnodes))
	}
	if rfOverDC {
		k.Class("rf > nodes")
	}

	strat := getStrategy(ks, nopLogger{})
	if strat == nil {
		return fmt.Errorf("getStrategy rejected valid replication options %v of %s", ks.StrategyOptions, ks.StrategyClass)
	}
	for dc := 0; dc <= 4; dc++ {
		want := c.RF
		if c.NTS {
			want = rf[vxDCName(dc)]
		}
		if got := strat.replicationFactor(vxDCName(dc)); got != want {
			return fmt.Errorf("replicationFactor(%s) = %d, options say %d", vxDCName(dc), got, want)
		}
	}

	// the one confirmed panic: a keyspace datacenter (rf>0) the ring lacks while the ring has a
	// datacenter the keyspace gives no replicas, and the two counts happen to be equal
	panicDomain := c.NTS && absentWithRF && uncovered
	classifyPanic := func(where, msg string) error {
		if panicDomain && strings.HasPrefix(msg, "token map different size to token ring") {
			return vx.Known(vxC10KnownPanic, "%s panics %q: keyspace %v, ring datacenters %v", where, msg, rf, ringDCs)
		}
		return fmt.Errorf("%s panicked: %s (keyspace %v rf=%d, ring %v)", where, msg, rf, c.RF, ring)
	}

	var rm tokenRingReplicas
	type rmRes struct {
		rm  tokenRingReplicas
		msg string
		p   bool
	}
	rmc := make(chan rmRes, 1)
	go func() {
		var r rmRes
		r.msg, r.p = vxCatch(func() { r.rm = strat.replicaMap(tr) })
		rmc <- r
	}()
	select {
	case r := <-rmc:
		if r.p {
			return classifyPanic("replicaMap", r.msg)
		}
		rm = r.rm
	case <-time.After(8 * time.Second):
		return fmt.Errorf("replicaMap did not return within 8 s for a ring of %d tokens on %d hosts (%d of them without tokens), keyspace %v rf=%d", len(ring), len(hosts), tokenless, rf, c.RF)
	}
	if !sort.IsSorted(rm) {
		return fmt.Errorf("replica map is not sorted by token: %v", rm)
	}

	eligible := cqlspec.EligibleNodes(ring, rf)
	var known error
	classes := map[string]bool{}
	type lookup struct {
		got []*HostInfo
		nil bool
	}
	lookups := make([]lookup, vxRanks)
	minTok, maxTok := sorted[0].Token, sorted[len(sorted)-1].Token
	for r := 0; r < vxRanks; r++ {
		tok := tr.partitioner.ParseString(vxTokenString(c.Part, r))
		var want, alt []string
		if c.NTS {
			want = cqlspec.NTSReplicasRackRepeats(ring, rf, int64(r))
			alt = cqlspec.NTSReplicasSkipped(ring, rf, int64(r))
			if !cqlspec.SameSet(want, alt) {
				// the two statements of Cassandra's algorithm disagree: no verdict for this token
				k.Excluded("nts-formulations-disagree")
				continue
			}
		} else {
			want = cqlspec.SimpleReplicas(ring, c.RF, int64(r))
		}
		owner, _ := cqlspec.Owner(ring, int64(r))
		switch {
		case seenRank[r]:
			classes["lookup = ring token"] = true
		case int64(r) < minTok:
			classes["lookup below smallest"] = true
		case int64(r) > maxTok:
			classes["lookup above largest"] = true
		default:
			classes["lookup between"] = true
		}

		var got []*HostInfo
		ht := rm.replicasFor(tok)
		if ht != nil {
			got = ht.hosts
		}
		lookups[r] = lookup{got: got, nil: ht == nil}
		names := vxHostNames(got)
		for _, h := range got {
			if h == nil {
				return fmt.Errorf("token %s: nil host among the replicas %v", tok, names)
			}
		}
		dup := false
		seen := map[string]bool{}
		for _, nme := range names {
			if seen[nme] {
				dup = true
			}
			seen[nme] = true
		}
		if dup {
			if c.NTS && vnodes {
				if known == nil {
					known = vx.Known(vxC10KnownDup, "token %s (rank %d): replicas %v list a node twice; Cassandra places it on %v (keyspace %v, ring %v)", tok, r, names, want, rf, ring)
				}
				continue // the counts behind this list are off; nothing else is judged for this token
			}
			return fmt.Errorf("token %s (rank %d): replicas %v list a node twice; Cassandra places it on %v", tok, r, names, want)
		}
		if !cqlspec.SameSet(names, want) {
			return fmt.Errorf("token %s (rank %d): driver replicas %v, Cassandra places it on %v (rf=%d %v, ring %v)", tok, r, names, want, c.RF, rf, ring)
		}
		if len(names) > eligible {
			return fmt.Errorf("token %s: %d replicas but only %d eligible nodes", tok, len(names), eligible)
		}
		ownerRF := c.RF
		if c.NTS {
			ownerRF = rf[owner.DC]
		}
		if ownerRF > 0 {
			if len(names) == 0 || names[0] != owner.Node {
				return fmt.Errorf("token %s (rank %d): first replica of %v is not the owner %s of the range", tok, r, names, owner.Node)
			}
			if want[0] != owner.Node { // self-check of the reference
				return fmt.Errorf("reference: first replica of %v is not the owner %s", want, owner.Node)
			}
		}
	}
	for l := range classes {
		k.Class(l)
	}

	// ---- plumbing: the same lists must reach a token-aware policy's picks. Only with the
	// byte-ordered partitioner, whose Hash is the identity, can a routing key aim at a token.
	if c.Part == 1 && known == nil {
		pol := TokenAwareHostPolicy(RoundRobinHostPolicy()).(*tokenAwareHostPolicy)
		pol.getKeyspaceName = func() string { return "ks" }
		pol.getKeyspaceMetadata = func(string) (*KeyspaceMetadata, error) { return ks, nil }
		pol.logger = nopLogger{}
		if msg, p := vxCatch(func() {
			pol.SetPartitioner(vxPartNames[c.Part])
			pol.AddHosts(hosts)
		}); p {
			return classifyPanic("tokenAwareHostPolicy.AddHosts", msg)
		}
		q := &Query{routingInfo: &queryRoutingInfo{}}
		q.getKeyspace = func() string { return "ks" }
		for r := 0; r < vxRanks; r++ {
			key := []byte(vxTokenString(c.Part, r))
			q.RoutingKey(key)
			exp := lookups[r].got
			if lookups[r].nil {
				o, _ := cqlspec.Owner(ring, int64(r))
				exp = []*HostInfo{byName[o.Node]}
			}
			it := pol.Pick(q)
			for i, e := range exp {
				sh := it()
				if sh == nil || sh.Info() != e {
					var g string = "<end>"
					if sh != nil && sh.Info() != nil {
						g = sh.Info().hostId
					}
					return fmt.Errorf("token-aware pick for key %q: host %d offered is %s, the replica list is %v", key, i, g, vxHostNames(exp))
				}
			}
		}
		k.Class("policy plumbing checked")

		// with ShuffleReplicas() every pick may offer the replicas in another order, but the placement the
		// policy keeps must stay what the strategy computed (owner first, clockwise), and two iterators of
		// the same range that are consumed in turns must each offer every replica exactly once
		sp := TokenAwareHostPolicy(RoundRobinHostPolicy(), ShuffleReplicas()).(*tokenAwareHostPolicy)
		sp.getKeyspaceName = func() string { return "ks" }
		sp.getKeyspaceMetadata = func(string) (*KeyspaceMetadata, error) { return ks, nil }
		sp.logger = nopLogger{}
		sp.SetPartitioner(vxPartNames[c.Part])
		sp.AddHosts(hosts)
		for round := 0; round < 2; round++ {
			for r := 0; r < vxRanks; r++ {
				if lookups[r].nil || len(lookups[r].got) == 0 {
					continue
				}
				exp := lookups[r].got
				key := []byte(vxTokenString(c.Part, r))
				q1 := &Query{routingInfo: &queryRoutingInfo{}}
				q1.getKeyspace = func() string { return "ks" }
				q1.RoutingKey(key)
				itA, itB := sp.Pick(q1), sp.Pick(q1)
				seenA, seenB := map[*HostInfo]int{}, map[*HostInfo]int{}
				for i := 0; i < len(exp); i++ {
					for _, x := range []struct {
						it   NextHost
						seen map[*HostInfo]int
					}{{itA, seenA}, {itB, seenB}} {
						sh := x.it()
						if sh == nil || sh.Info() == nil {
							return fmt.Errorf("shuffling token-aware pick for key %q ended after %d of %d replicas", key, i, len(exp))
						}
						x.seen[sh.Info()]++
					}
				}
				for _, e := range exp {
					if seenA[e] != 1 || seenB[e] != 1 {
						return fmt.Errorf("shuffling token-aware picks for key %q (two iterators consumed in turns): replica %s offered %d and %d times among the first %d hosts; replicas are %v", key, e.hostId, seenA[e], seenB[e], len(exp), vxHostNames(exp))
					}
				}
			}
		}
		meta := sp.getMetadataReadOnly()
		for r := 0; r < vxRanks && meta != nil; r++ {
			if lookups[r].nil {
				continue
			}
			tok := tr.partitioner.ParseString(vxTokenString(c.Part, r))
			ht := meta.replicas["ks"].replicasFor(tok)
			var got []*HostInfo
			if ht != nil {
				got = ht.hosts
			}
			if strings.Join(vxHostNames(got), ",") != strings.Join(vxHostNames(lookups[r].got), ",") {
				return fmt.Errorf("after shuffled picks the policy's stored placement for rank %d is %v, the strategy computed %v", r, vxHostNames(got), vxHostNames(lookups[r].got))
			}
		}
		k.Class("shuffled picks checked")

		// a statement on a table of another keyspace than the session's: a real Query learns its keyspace from the
		// PREPARED metadata (here: the session's routing-key cache, as a PREPARE leaves it) while its routing key
		// is computed; the replicas offered first are those of the statement's keyspace
		if !c.NTS && c.RF >= 1 && len(hosts) >= 2 {
			rf2 := c.RF%len(hosts) + 1
			if rf2 == c.RF {
				rf2 = 1
			}
			ks2 := &KeyspaceMetadata{Name: "ks2", StrategyClass: "SimpleStrategy", StrategyOptions: map[string]interface{}{"class": "SimpleStrategy", "replication_factor": rf2}}
			kp := TokenAwareHostPolicy(RoundRobinHostPolicy()).(*tokenAwareHostPolicy)
			kp.getKeyspaceName = func() string { return "ks" }
			kp.getKeyspaceMetadata = func(name string) (*KeyspaceMetadata, error) {
				if name == "ks2" {
					return ks2, nil
				}
				return ks, nil
			}
			kp.logger = nopLogger{}
			kp.SetPartitioner(vxPartNames[c.Part])
			kp.AddHosts(hosts)
			kp.KeyspaceChanged(KeyspaceUpdateEvent{Keyspace: "ks2"})
			sess := &Session{}
			sess.cfg.Keyspace = "ks"
			sess.routingKeyInfoCache.lru = lru.New(4)
			const stmt = "SELECT v FROM ks2.t WHERE k = ?"
			sess.routingKeyInfoCache.lru.Add(stmt, &inflightCachedEntry{value: &routingKeyInfo{indexes: []int{0}, types: []TypeInfo{NativeType{typ: TypeBlob, proto: 4}}, keyspace: "ks2", table: "t"}})
			for r := 0; r < vxRanks; r++ {
				want := cqlspec.SimpleReplicas(ring, rf2, int64(r))
				other := cqlspec.SimpleReplicas(ring, c.RF, int64(r))
				if len(want) == 0 || cqlspec.SameSet(want, other) {
					continue
				}
				fresh := sess.Query(stmt, []byte(vxTokenString(c.Part, r))) // a new Query object: its first Pick
				it := kp.Pick(fresh)
				var offered []string
				for i := 0; i < len(want); i++ {
					sh := it()
					if sh == nil || sh.Info() == nil {
						break
					}
					offered = append(offered, sh.Info().hostId)
				}
				if !cqlspec.SameSet(offered, want) {
					return fmt.Errorf("statement on keyspace ks2 (rf %d) in a session on keyspace ks (rf %d), token rank %d: the first pick of a fresh Query offers %v first, the replicas in ks2 are %v (in ks: %v)", rf2, c.RF, r, offered, want, other)
				}
				k.Class("statement keyspace differs from the session keyspace")
			}
			// ... and after a node has left: the replica map of the other keyspace describes the new ring as well
			vi2 := (c.RF + len(ring) + 1) % len(hosts)
			var ringB []cqlspec.RingEntry
			for _, e := range ring {
				if e.Node != vxNodeName(vi2) {
					ringB = append(ringB, e)
				}
			}
			if msg, p := vxCatch(func() { kp.RemoveHost(hosts[vi2]) }); p {
				return fmt.Errorf("RemoveHost with replica maps of two keyspaces panicked: %s", msg)
			}
			for r := 0; r < vxRanks && len(ringB) > 0; r++ {
				want := cqlspec.SimpleReplicas(ringB, rf2, int64(r))
				if len(want) == 0 {
					continue
				}
				fresh := sess.Query(stmt, []byte(vxTokenString(c.Part, r)))
				var offered []string
				if msg, p := vxCatch(func() {
					it := kp.Pick(fresh)
					for i := 0; i < len(want); i++ {
						sh := it()
						if sh == nil || sh.Info() == nil {
							break
						}
						offered = append(offered, sh.Info().hostId)
					}
				}); p {
					return fmt.Errorf("Pick for a statement on keyspace ks2 after a node left panicked: %s", msg)
				}
				if !cqlspec.SameSet(offered, want) {
					return fmt.Errorf("node %s left; statement on keyspace ks2 (rf %d, not the session keyspace), token rank %d: offered first %v, the replicas on the new ring are %v", vxNodeName(vi2), rf2, r, offered, want)
				}
			}
			k.Class("a node left: replica maps of both keyspaces follow")
		}

		// history: a node leaves while the keyspace metadata cannot be read (control connection down, schema
		// table unreadable): the policy has no placement to offer then, but what it offers must be taken from
		// the ring as it is now - the owner of the range first, the node that left never; once the schema
		// is readable again (KeyspaceChanged) the placement is Cassandra's for the new ring
		if len(hosts) >= 2 {
			readable := true
			hp := TokenAwareHostPolicy(RoundRobinHostPolicy()).(*tokenAwareHostPolicy)
			hp.getKeyspaceName = func() string { return "ks" }
			hp.getKeyspaceMetadata = func(string) (*KeyspaceMetadata, error) {
				if !readable {
					return nil, fmt.Errorf("schema unreadable")
				}
				return ks, nil
			}
			hp.logger = nopLogger{}
			hp.SetPartitioner(vxPartNames[c.Part])
			hp.AddHosts(hosts)
			vi := (c.RF + len(c.DCs) + len(ring)) % len(hosts)
			victim := hosts[vi]
			var ring2 []cqlspec.RingEntry
			for _, e := range ring {
				if e.Node != vxNodeName(vi) {
					ring2 = append(ring2, e)
				}
			}
			readable = false
			if msg, p := vxCatch(func() { hp.RemoveHost(victim) }); p {
				return fmt.Errorf("RemoveHost while the schema is unreadable panicked: %s", msg)
			}
			for r := 0; r < vxRanks; r++ {
				key := []byte(vxTokenString(c.Part, r))
				q.RoutingKey(key)
				o, ok := cqlspec.Owner(ring2, int64(r))
				it := hp.Pick(q)
				for i := 0; i <= len(hosts); i++ {
					sh := it()
					if sh == nil {
						break
					}
					if sh.Info() == victim {
						return fmt.Errorf("node %s left while the schema was unreadable; the pick for key %q still offers it (position %d)", victim.hostId, key, i)
					}
					if i == 0 && ok && sh.Info() != byName[o.Node] {
						return fmt.Errorf("node %s left while the schema was unreadable; the pick for key %q starts with %s, the range now belongs to %s", victim.hostId, key, sh.Info().hostId, o.Node)
					}
				}
			}
			k.Class("a node left while the schema was unreadable")

			// a keyspace event whose schema read is still under way when a node joins (events and refreshes run on
			// different goroutines): whatever the order in which the two take effect, afterwards the node is in
			// the ring. The schema read waits up to 20 ms for the join - which, while the policy is being updated,
			// has to wait itself - so this is done for one case in forty.
			sum := 0
			for _, e := range ring {
				sum += int(e.Token)
			}
			if sum%40 == 0 && !c.NTS {
				jp := TokenAwareHostPolicy(RoundRobinHostPolicy()).(*tokenAwareHostPolicy)
				jp.getKeyspaceName = func() string { return "ks" }
				var armed int32
				joined := make(chan struct{})
				last := hosts[len(hosts)-1]
				jp.getKeyspaceMetadata = func(string) (*KeyspaceMetadata, error) {
					if atomic.CompareAndSwapInt32(&armed, 1, 0) {
						go func() {
							jp.AddHost(last)
							close(joined)
						}()
						select {
						case <-joined:
						case <-time.After(20 * time.Millisecond):
						}
					}
					return ks, nil
				}
				jp.logger = nopLogger{}
				jp.SetPartitioner(vxPartNames[c.Part])
				jp.AddHosts(hosts[:len(hosts)-1])
				atomic.StoreInt32(&armed, 1)
				jp.KeyspaceChanged(KeyspaceUpdateEvent{Keyspace: "ks"})
				select {
				case <-joined:
				case <-time.After(10 * time.Second):
					return fmt.Errorf("AddHost did not return within 10 s of a KeyspaceChanged event")
				}
				meta := jp.getMetadataReadOnly()
				if meta == nil || meta.tokenRing == nil || len(meta.tokenRing.tokens) != len(ring) {
					n := -1
					if meta != nil && meta.tokenRing != nil {
						n = len(meta.tokenRing.tokens)
					}
					return fmt.Errorf("node %s joined while a keyspace event was reading the schema: afterwards the policy's ring has %d tokens, the cluster has %d", last.hostId, n, len(ring))
				}
				for r := 0; r < vxRanks; r++ {
					tok := tr.partitioner.ParseString(vxTokenString(c.Part, r))
					if ht := meta.replicas["ks"].replicasFor(tok); ht != nil {
						if want := cqlspec.SimpleReplicas(ring, c.RF, int64(r)); !cqlspec.SameSet(vxHostNames(ht.hosts), want) {
							return fmt.Errorf("node %s joined while a keyspace event was reading the schema: replicas of rank %d are %v, Cassandra places it on %v", last.hostId, r, vxHostNames(ht.hosts), want)
						}
					}
				}
				k.Class("a node joined during a keyspace event")
			}
			if !c.NTS {
				readable = true
				hp.KeyspaceChanged(KeyspaceUpdateEvent{Keyspace: "ks"})
				meta := hp.getMetadataReadOnly()
				for r := 0; r < vxRanks && meta != nil && len(ring2) > 0; r++ {
					tok := tr.partitioner.ParseString(vxTokenString(c.Part, r))
					var got []*HostInfo
					if ht := meta.replicas["ks"].replicasFor(tok); ht != nil {
						got = ht.hosts
					} else {
						continue
					}
					if want := cqlspec.SimpleReplicas(ring2, c.RF, int64(r)); !cqlspec.SameSet(vxHostNames(got), want) {
						return fmt.Errorf("after node %s left and the schema was read again: replicas of rank %d are %v, Cassandra places it on %v", victim.hostId, r, vxHostNames(got), want)
					}
				}
			}
		}
	}
	return known
}

func TestVxC10Placement(t *testing.T) {
	vx.Check(t, vx.Prop{
		ID: "C10", Part: "TestVxC10Placement",
		Rule: "ring of 1..8 nodes x 1..4 distinct tokens (48-rank token space spelled per partitioner incl. domain extremes), 1..3 DCs, 1..3 racks unevenly filled; SimpleStrategy rf 0..9 or NTS rf 0..5 for any subset of 4 DC names (one never in the ring), int or string options; every rank is looked up; non-trivial = some node owns >=2 tokens, or >=2 DCs in the ring, or rf > nodes, or keyspace names a DC absent from the ring; distinct by whole case",
		Draw: func(t *rapid.T) interface{} { return vxC10Draw(t) },
		New:  func() interface{} { return &vxC10Case{} },
		Run: func(ci interface{}, k *vstats.Case) error {
			return vxC10Run(ci.(*vxC10Case), k)
		},
	})
}
