//go:build verif && go1.21

package gocql

// C05: type descriptions that nest very deeply (in result / prepared metadata, in the CQL type names and the
// marshal class definitions of schema tables). Every parser of them recurses once per level; a stack overflow
// is fatal to the process and cannot be recovered, so the only acceptable outcomes are a value or an error.
// The case holds (where, constructor, depth) only - the bytes are built from it - so a replay stays small.

import (
	"fmt"
	"strings"
	"testing"

	"pgregory.net/rapid"
	"verif.local/vstats"
	"verif.local/vx"
)

type vxC05DeepCase struct {
	Where string `json:"where"` // rows | prepared-bind | prepared-result | cql-name | marshal-class
	Open  string `json:"open"`  // the constructor that is nested: list set map tuple udt frozen reversed
	Depth int    `json:"depth"`
	Proto int    `json:"proto"`
}

// vxDeepTypeOption: Depth nested type options ending in int.
func vxDeepTypeOption(open string, depth int) []byte {
	var b []byte
	for i := 0; i < depth; i++ {
		switch open {
		case "set":
			b = append(b, 0, 0x22)
		case "map":
			b = append(b, 0, 0x21, 0, 9) // key int, value nests on
		case "tuple":
			b = append(b, 0, 0x31, 0, 1)
		case "udt":
			b = append(b, 0, 0x30, 0, 1, 'k', 0, 1, 'u', 0, 1, 0, 1, 'f')
		default:
			b = append(b, 0, 0x20)
		}
	}
	return append(b, 0, 9)
}

func vxRunC05Deep(c *vxC05DeepCase, k *vstats.Case) error {
	if c.Depth < 0 || c.Depth > 8<<20 || c.Proto < 1 || c.Proto > 5 {
		return nil
	}
	k.Class("where=" + c.Where)
	switch {
	case c.Depth <= 128:
		k.Class("depth<=128")
	case c.Depth <= 10000:
		k.Class("depth<=10000")
	default:
		k.Class("depth in the millions")
		k.NonTrivial()
	}
	try := func(name string, f func()) (err error) {
		defer func() {
			if r := recover(); r != nil {
				err = fmt.Errorf("%s with %q nested %d deep panicked: %v", name, c.Open, c.Depth, r)
			}
		}()
		f()
		return nil
	}
	switch c.Where {
	case "rows", "prepared-bind", "prepared-result":
		if c.Proto < 3 && (c.Open == "tuple" || c.Open == "udt") {
			return nil
		}
		ty := vxDeepTypeOption(c.Open, c.Depth)
		col := append([]byte{0, 1, 'k', 0, 1, 't', 0, 1, 'c'}, ty...)
		var body []byte
		switch c.Where {
		case "rows":
			body = append(body, 0, 0, 0, 2, 0, 0, 0, 0, 0, 0, 0, 1)
			body = append(body, col...)
			body = append(body, 0, 0, 0, 0)
		default:
			body = append(body, 0, 0, 0, 4, 0, 2, 'i', 'd')
			if c.Proto >= 5 {
				body = append(body, 0, 2, 'r', 'm') // result metadata id
			}
			bind := []byte{0, 0, 0, 0, 0, 0, 0, 0} // flags, 0 columns
			if c.Proto >= 4 {
				bind = append(bind, 0, 0, 0, 0) // no partition-key indexes
			}
			deep := []byte{0, 0, 0, 0, 0, 0, 0, 1}
			if c.Proto >= 4 && c.Where == "prepared-bind" {
				deep = append(deep, 0, 0, 0, 0)
			}
			deep = append(deep, col...)
			res := []byte{0, 0, 0, 0, 0, 0, 0, 0}
			if c.Where == "prepared-bind" {
				body = append(append(body, deep...), res...)
			} else {
				body = append(append(body, bind...), deep...)
			}
		}
		return try("parseFrame", func() {
			f := newFramer(nil, byte(c.Proto))
			f.buf = body
			head := frameHeader{version: protoVersion(byte(c.Proto) | 0x80), op: opResult, length: len(body), stream: 1}
			f.header = &head
			fr, err := f.parseFrame()
			if err == nil && c.Depth <= 100 {
				if _, ok := fr.(frame); !ok {
					panic("no frame and no error")
				}
			}
		})
	case "cql-name":
		open := map[string]string{"list": "list<", "set": "set<", "frozen": "frozen<"}[c.Open]
		if open == "" {
			return nil
		}
		s := strings.Repeat(open, c.Depth) + "int" + strings.Repeat(">", c.Depth)
		if err := try("getCassandraType", func() { _ = getCassandraType(s, vxNullLogger) }); err != nil {
			return err
		}
		return try("getTypeInfo", func() { _ = getTypeInfo(s, vxNullLogger) })
	case "marshal-class":
		open := map[string]string{"list": "org.apache.cassandra.db.marshal.ListType(", "set": "org.apache.cassandra.db.marshal.SetType(",
			"reversed": "org.apache.cassandra.db.marshal.ReversedType(", "frozen": "org.apache.cassandra.db.marshal.FrozenType("}[c.Open]
		if open == "" {
			return nil
		}
		s := strings.Repeat(open, c.Depth) + "org.apache.cassandra.db.marshal.Int32Type" + strings.Repeat(")", c.Depth)
		// (getTypeInfo first rewrites marshal class names with one strings.Replace per name: quadratic time for
		// such input, which is slow but neither a crash nor an allocation that stays - not judged)
		return try("parseType", func() { _ = parseType(s, vxNullLogger) })
	}
	return nil
}

func TestVxC05DeepTypes(t *testing.T) {
	vx.Check(t, vx.Prop{
		ID: "C05", Part: "TestVxC05DeepTypes",
		Rule: "a type description nested 0..130 / 1000 / 10000 / 2..6 million levels deep (list, set, map, tuple, udt, frozen, reversed) in the metadata of a ROWS result, in the bind or result metadata of a PREPARED result (protocol 1..5), in a CQL type name or in a marshal class definition of the schema tables; through parseFrame, getCassandraType, getTypeInfo (CQL names), parseType; oracle: each returns a value or an error (a stack overflow kills the process and is attributed to the case); non-trivial = millions of levels; distinct by the case",
		Draw: func(t *rapid.T) interface{} {
			c := &vxC05DeepCase{Where: rapid.SampledFrom([]string{"rows", "prepared-bind", "prepared-result", "cql-name", "marshal-class"}).Draw(t, "where"),
				Open: rapid.SampledFrom([]string{"list", "set", "map", "tuple", "udt", "frozen", "reversed"}).Draw(t, "open"), Proto: rapid.IntRange(1, 5).Draw(t, "proto")}
			switch rapid.IntRange(0, 3).Draw(t, "range") {
			case 0:
				c.Depth = rapid.IntRange(0, 130).Draw(t, "depth")
			case 1:
				c.Depth = rapid.SampledFrom([]int{127, 128, 129, 1000, 10000}).Draw(t, "depth_b")
			default:
				c.Depth = rapid.IntRange(2<<20, 6<<20).Draw(t, "depth_m")
			}
			return c
		},
		New: func() interface{} { return &vxC05DeepCase{} },
		Run: func(ci interface{}, k *vstats.Case) error {
			return vxRunC05Deep(ci.(*vxC05DeepCase), k)
		},
	})
}
