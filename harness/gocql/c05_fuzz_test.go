//go:build verif && go1.21

// C05 - native coverage-guided fuzz targets (thorough tier only). The semantic oracle is inside the
// target: nothing may panic and allocation stays proportional to the input.
package gocql

import (
	"reflect"
	"testing"

	"verif.local/cqlspec"
)

func vxFuzzSeedFrames() [][]byte {
	var out [][]byte
	tok := "0102"
	col := func(k cqlspec.Kind) cqlspec.Column {
		return cqlspec.Column{Keyspace: "ks", Table: "t", Name: "c", Type: cqlspec.Scalar(k)}
	}
	tuple := cqlspec.Column{Keyspace: "ks", Table: "t", Name: "tp", Type: &cqlspec.Type{Kind: cqlspec.Tuple, Elems: []*cqlspec.Type{cqlspec.Scalar(cqlspec.Int), cqlspec.Scalar(cqlspec.Varchar)}}}
	udt := cqlspec.Column{Keyspace: "ks", Table: "t", Name: "u", Type: &cqlspec.Type{Kind: cqlspec.UDT, Keyspace: "ks", Name: "u1", Names: []string{"a"}, Elems: []*cqlspec.Type{{Kind: cqlspec.List, Elems: []*cqlspec.Type{cqlspec.Scalar(cqlspec.Int)}}}}}
	for v := 1; v <= 5; v++ {
		rs := []*cqlspec.Response{
			{Kind: "READY"}, {Kind: "AUTHENTICATE", Class: "org.apache.cassandra.auth.PasswordAuthenticator"},
			{Kind: "SUPPORTED", Supported: map[string][]string{"COMPRESSION": {"snappy", "lz4"}, "CQL_VERSION": {"3.4.4"}}},
			{Kind: "ERROR", Code: cqlspec.ErrUnavailable, Message: "m", Consistency: 1, Required: 2, Alive: 1},
			{Kind: "ERROR", Code: cqlspec.ErrReadFailure, Message: "m", Consistency: 1, Received: 1, BlockFor: 2, NumFailures: 1, Reasons: []cqlspec.FailureReason{{AddrHex: "0a000001", Code: 1}}},
			{Kind: "ERROR", Code: cqlspec.ErrUnprepared, Message: "m", UnpreparedIDHex: "0102"},
			{Kind: "ERROR", Code: cqlspec.ErrFunctionFailure, Message: "m", ErrKeyspace: "k", Function: "f", ArgTypes: []string{"int"}},
			{Kind: "VOID"}, {Kind: "SET_KEYSPACE", Keyspace: "ks"},
			{Kind: "ROWS", Meta: &cqlspec.Metadata{Columns: []cqlspec.Column{col(cqlspec.Int), col(cqlspec.Varchar)}, GlobalSpec: true, Keyspace: "ks", Table: "t", HasMore: true, StateHex: "0102"},
				Rows: [][]cqlspec.Value{{cqlspec.I64Value(1), cqlspec.BytesValue([]byte("a"))}, {cqlspec.NullValue(), cqlspec.BytesValue(nil)}}},
			{Kind: "PREPARED", PreparedIDHex: "0a0b", Meta: &cqlspec.Metadata{Columns: []cqlspec.Column{col(cqlspec.Int)}, PKIndexes: []int{0}}, ResultMeta: &cqlspec.Metadata{Columns: []cqlspec.Column{col(cqlspec.Bigint)}}},
			{Kind: "SCHEMA_CHANGE", Change: "CREATED", Target: "TABLE", ChKeyspace: "ks", ChObject: "t"},
			{Kind: "EVENT", Stream: -1, EventType: "STATUS_CHANGE", Change: "UP", AddrHex: "0a000001", Port: 9042},
			{Kind: "EVENT", Stream: -1, EventType: "TOPOLOGY_CHANGE", Change: "NEW_NODE", AddrHex: "20010db8000000000000000000000001", Port: 9042},
		}
		if v >= 2 {
			rs = append(rs, &cqlspec.Response{Kind: "AUTH_CHALLENGE", TokenHex: &tok}, &cqlspec.Response{Kind: "AUTH_SUCCESS"})
		}
		if v >= 3 {
			rs = append(rs, &cqlspec.Response{Kind: "ROWS", Meta: &cqlspec.Metadata{Columns: []cqlspec.Column{tuple, udt}},
				Rows: [][]cqlspec.Value{{{Elems: []cqlspec.Value{cqlspec.I64Value(7), cqlspec.BytesValue([]byte("x"))}}, {Elems: []cqlspec.Value{{Elems: []cqlspec.Value{cqlspec.I64Value(1)}}}}}}})
		}
		if v >= 4 {
			rs = append(rs, &cqlspec.Response{Kind: "VOID", Warnings: []string{"w"}, HasPayload: true, Payload: map[string]string{"k": "01"}, TraceHex: "000102030405060708090a0b0c0d0e0f"})
		}
		for _, r := range rs {
			r.Version = v
			if r.Stream == 0 {
				r.Stream = 1
			}
			if b, err := r.Frame(nil); err == nil {
				out = append(out, b)
			}
		}
	}
	return out
}

func FuzzVxC05Frame(f *testing.F) {
	for _, b := range vxFuzzSeedFrames() {
		f.Add(b, byte(0))
		f.Add(b, byte(1))
	}
	// hostile constants
	f.Add([]byte{0x84, 0, 0, 1, 8, 0x7f, 0xff, 0xff, 0xff}, byte(0))
	f.Add([]byte{0x84, 0, 0, 1, 8, 0, 0, 0, 8, 0, 0, 0, 2, 0xff, 0xff, 0xff, 0xff}, byte(2))
	f.Fuzz(func(t *testing.T, data []byte, consumer byte) {
		if len(data) == 0 || len(data) > 1<<16 {
			return
		}
		proto := int(data[0] & 0x7f)
		if proto < 1 || proto > 5 {
			return
		}
		bound := vxAllocBound(len(data))
		if h, _, err := cqlspec.ParseHeader(data); err == nil && h.Length > 0 {
			if h.Length > 1<<20 {
				return // frame bodies beyond 1 MiB are outside this campaign
			}
			bound += uint64(h.Length)
		}
		var escaped, stage string
		alloc, over := vxMeasureOver(bound, func() {
			escaped, stage = vxParseAndIterate(data, proto, nil, int(consumer%4), 8)
		})
		if escaped != "" {
			t.Fatalf("frame % x at stage %s: %s", data, stage, escaped)
		}
		if over {
			t.Fatalf("frame % x (%d bytes) made the driver allocate %d bytes (bound %d) at stage %s", data, len(data), alloc, bound, stage)
		}
	})
}

func FuzzVxC05Unmarshal(f *testing.F) {
	types := []*cqlspec.Type{cqlspec.Scalar(cqlspec.Int), cqlspec.Scalar(cqlspec.Varint), cqlspec.Scalar(cqlspec.Decimal), cqlspec.Scalar(cqlspec.Date), cqlspec.Scalar(cqlspec.Duration),
		cqlspec.Scalar(cqlspec.Inet), cqlspec.Scalar(cqlspec.UUID), cqlspec.Scalar(cqlspec.TimeUUID), cqlspec.Scalar(cqlspec.Timestamp),
		{Kind: cqlspec.List, Elems: []*cqlspec.Type{cqlspec.Scalar(cqlspec.Int)}},
		{Kind: cqlspec.Map, Elems: []*cqlspec.Type{cqlspec.Scalar(cqlspec.Varchar), {Kind: cqlspec.Set, Elems: []*cqlspec.Type{cqlspec.Scalar(cqlspec.Bigint)}}}},
		{Kind: cqlspec.Tuple, Elems: []*cqlspec.Type{cqlspec.Scalar(cqlspec.Int), cqlspec.Scalar(cqlspec.Varchar), {Kind: cqlspec.List, Elems: []*cqlspec.Type{cqlspec.Scalar(cqlspec.Date)}}}},
		{Kind: cqlspec.UDT, Keyspace: "k", Name: "u", Names: []string{"a", "b"}, Elems: []*cqlspec.Type{cqlspec.Scalar(cqlspec.Duration), {Kind: cqlspec.Map, Elems: []*cqlspec.Type{cqlspec.Scalar(cqlspec.Int), cqlspec.Scalar(cqlspec.Decimal)}}}}}
	for i := range types {
		f.Add(byte(i), byte(4), []byte{0, 0, 0, 1, 0, 0, 0, 4, 0, 0, 0, 7})
		f.Add(byte(i), byte(2), []byte{0, 1, 0, 4, 0, 0, 0, 7})
		f.Add(byte(i), byte(4), []byte{0xff, 0xff, 0xff, 0xfe})
		f.Add(byte(i), byte(4), []byte{})
	}
	f.Fuzz(func(t *testing.T, ti byte, proto byte, data []byte) {
		if len(data) > 1<<14 {
			return
		}
		ty := types[int(ti)%len(types)]
		p := proto%5 + 1
		info := vxTypeInfo(ty, p)
		def := vxDefaultGoType(ty)
		for _, tt := range []reflect.Type{def, reflect.PtrTo(def)} {
			var pan interface{}
			alloc, over := vxMeasureOver(vxAllocBound(len(data)), func() {
				_, pan = vxSafeUnmarshal(info, append([]byte{}, data...), reflect.New(tt).Interface())
			})
			if pan != nil {
				t.Fatalf("Unmarshal(%v, %x, *%v) panicked: %v", ty, data, tt, pan)
			}
			if over {
				t.Fatalf("Unmarshal(%v, %x, *%v) allocated %d bytes", ty, data, tt, alloc)
			}
		}
	})
}

func FuzzVxC05TypeString(f *testing.F) {
	for _, s := range []string{"org.apache.cassandra.db.marshal.CompositeType(org.apache.cassandra.db.marshal.Int32Type,org.apache.cassandra.db.marshal.ColumnToCollectionType(6162:org.apache.cassandra.db.marshal.ListType(org.apache.cassandra.db.marshal.UTF8Type)))",
		"org.apache.cassandra.db.marshal.ReversedType(org.apache.cassandra.db.marshal.MapType(org.apache.cassandra.db.marshal.UTF8Type,org.apache.cassandra.db.marshal.LongType))",
		"frozen<map<text, frozen<list<frozen<tuple<int, int>>>>>>", "tuple<int, text>", "a(", "list<", "map<int", ""} {
		f.Add(s)
	}
	f.Fuzz(func(t *testing.T, s string) {
		if len(s) > 4096 {
			return
		}
		defer func() {
			if r := recover(); r != nil {
				t.Fatalf("type string %q: panic %v\n%s", s, r, vxShortStack())
			}
		}()
		_ = parseType(s, vxNullLogger)
		_ = getCassandraType(s, vxNullLogger)
		_ = getTypeInfo(s, vxNullLogger)
		_ = apacheToCassandraType(s)
		_ = splitCompositeTypes(s)
	})
}
