//go:build verif && go1.21

// C17 - pools stay within bounds; a session is safe to share and always closes.
//
// TestVxC17Session   a real Session on lib/vnode driven by a pre-drawn plan of concurrent actors
//
//	(queries, node-side connection kills, host down/up/remove/restore, ring
//	refreshes, control-connection kills, events, Close once / twice / from two
//	goroutines, queries after Close).
//
// TestVxC17FillStorm one host; many simultaneous fill requests against a pool that just lost connections.
// TestVxC17Race      the same scenario in a -race binary (bin/check turns a race report into a violation).
// TestVxC17Debouncer a unit-level machine on refreshDebouncer / eventDebouncer alone
//
//	({debounce, refreshNow, stop} from 2-3 goroutines, microsecond interval).
//
// A hang is judged by *proof*, not by the clock, wherever possible: a goroutine parked in
// `stop` on a channel send while no flusher goroutine exists can never continue, whatever the
// timing. Watchdogs are the fallback, and a verdict that rests on a watchdog alone is reported
// only if a second run of the same case fails the same way.
package gocql

import (
	"context"
	"encoding/hex"
	"encoding/json"
	"errors"
	"fmt"
	"net"
	"os"
	"runtime"
	"sort"
	"strconv"
	"strings"
	"sync"
	"sync/atomic"
	"testing"
	"time"

	"pgregory.net/rapid"
	"verif.local/cqlspec"
	"verif.local/vnode"
	"verif.local/vstats"
	"verif.local/vx"
)

// ---------------------------------------------------------------------------------------------
// goroutine dumps

type vxGor struct {
	ID      int
	State   string   // "chan send", "select", "running", ... (without the duration)
	Funcs   []string // fully qualified function names, innermost first
	Created string   // function named by "created by"
	Text    string
}

const vxPkgPath = "github.com/gocql/gocql"

func vxGoroutines() []vxGor {
	buf := make([]byte, 1<<20)
	for {
		n := runtime.Stack(buf, true)
		if n < len(buf) {
			buf = buf[:n]
			break
		}
		buf = make([]byte, 2*len(buf))
	}
	var out []vxGor
	for _, blk := range strings.Split(string(buf), "\n\n") {
		lines := strings.Split(strings.TrimSpace(blk), "\n")
		if len(lines) == 0 || !strings.HasPrefix(lines[0], "goroutine ") {
			continue
		}
		g := vxGor{Text: blk}
		h := strings.TrimPrefix(lines[0], "goroutine ")
		if i := strings.IndexByte(h, ' '); i > 0 {
			g.ID, _ = strconv.Atoi(h[:i])
			st := strings.Trim(h[i+1:], "[]:")
			if j := strings.IndexByte(st, ','); j >= 0 {
				st = st[:j]
			}
			g.State = st
		}
		for _, l := range lines[1:] {
			if strings.HasPrefix(l, "\t") || l == "" {
				continue
			}
			if strings.HasPrefix(l, "created by ") {
				c := strings.TrimPrefix(l, "created by ")
				if j := strings.Index(c, " in goroutine"); j >= 0 {
					c = c[:j]
				}
				g.Created = c
				continue
			}
			if j := strings.LastIndexByte(l, '('); j > 0 {
				l = l[:j]
			}
			g.Funcs = append(g.Funcs, l)
		}
		out = append(out, g)
	}
	return out
}

// vxIsHarnessFunc: a function declared by the harness inside package gocql (vx / TestVx prefix,
// methods of vx types, closures of those).
func vxIsHarnessFunc(f string) bool {
	if !strings.HasPrefix(f, vxPkgPath+".") {
		return false
	}
	r := strings.TrimPrefix(f, vxPkgPath+".")
	r = strings.TrimPrefix(r, "(*")
	r = strings.TrimPrefix(r, "(")
	return strings.HasPrefix(r, "vx") || strings.HasPrefix(r, "Vx") || strings.HasPrefix(r, "TestVx") || r == "TestMain"
}

func vxIsDriverFunc(f string) bool {
	return (strings.HasPrefix(f, vxPkgPath+".") || strings.HasPrefix(f, vxPkgPath+"/")) && !vxIsHarnessFunc(f)
}

// has reports whether the goroutine has a frame whose name ends with suffix.
func (g *vxGor) has(suffix string) bool {
	for _, f := range g.Funcs {
		if strings.HasSuffix(f, suffix) {
			return true
		}
	}
	return false
}

// vxDriverGoroutines returns the goroutines that the driver started itself (`go` statement inside
// the driver, or a driver function as the goroutine's entry point). A harness goroutine that calls
// into the driver is not one of them, and a driver goroutine that calls out into the harness's
// dialer still is.
func vxDriverGoroutines() []vxGor {
	var out []vxGor
	for _, g := range vxGoroutines() {
		if vxIsDriverFunc(g.Created) || (len(g.Funcs) > 0 && vxIsDriverFunc(g.Funcs[len(g.Funcs)-1])) {
			out = append(out, g)
		}
	}
	return out
}

func vxGorSummary(gs []vxGor) string {
	var parts []string
	for _, g := range gs {
		top := ""
		for _, f := range g.Funcs {
			if vxIsDriverFunc(f) {
				top = strings.TrimPrefix(f, vxPkgPath+".")
				break
			}
		}
		parts = append(parts, fmt.Sprintf("%s[%s]", top, g.State))
	}
	sort.Strings(parts)
	return strings.Join(parts, ", ")
}

// ---------------------------------------------------------------------------------------------
// Part: debouncer machine

type vxC17DOp struct {
	Op string `json:"op"` // debounce | now (refreshNow, wait at once) | nowlater (wait at thread end) | stop | spin | fire
	N  int    `json:"n,omitempty"`
}

type vxC17DCase struct {
	Kind       string       `json:"kind"` // "refresh" | "event"
	IntervalUs int          `json:"interval_us"`
	Work       int          `json:"work"` // Gosched calls inside the refresh function / event callback
	Threads    [][]vxC17DOp `json:"threads"`
}

type vxC17SeqErr int32

func (e vxC17SeqErr) Error() string { return "refresh#" + strconv.Itoa(int(e)) }

type vxC17Frame struct{ id int }

func (vxC17Frame) Header() frameHeader { return frameHeader{} }

const (
	vxC17Watchdog = 12 * time.Second
)

func vxSpin(n int) {
	for i := 0; i < n; i++ {
		runtime.Gosched()
	}
}

// vxC17Stuck inspects a dump: which of the harness goroutines of this case are parked for ever?
// stopStuck: a goroutine parked on the channel send inside <typ>.stop while no <typ>.flusher exists.
// waitStuck: harness goroutines parked in vxC17Await (receive on a refreshNow channel) while no flusher exists.
func vxC17Stuck(typ string) (stopStuck []int, waitStuck []int, flusher bool) {
	gs := vxGoroutines()
	for i := range gs {
		if gs[i].has("(*" + typ + ").flusher") {
			flusher = true
		}
	}
	if flusher {
		return nil, nil, true
	}
	for i := range gs {
		g := &gs[i]
		if g.has("(*"+typ+").stop") && g.State == "chan send" {
			stopStuck = append(stopStuck, g.ID)
		}
		if g.has(".vxC17Await") && g.State == "chan receive" && len(g.Funcs) > 0 && strings.HasSuffix(g.Funcs[0], ".vxC17Await") {
			waitStuck = append(waitStuck, g.ID)
		}
	}
	return
}

// vxC17Await receives from a refreshNow channel (kept as a separate, non-inlined function so that
// a goroutine parked here is recognisable in a dump).
//
//go:noinline
func vxC17Await(ch <-chan error) (error, bool) {
	err, ok := <-ch
	return err, ok
}

func vxSameInts(a, b []int) bool {
	if len(a) != len(b) {
		return false
	}
	sort.Ints(a)
	sort.Ints(b)
	for i := range a {
		if a[i] != b[i] {
			return false
		}
	}
	return true
}

type vxC17DResult struct {
	stopHang  bool // proven: stop parked for ever
	waitHang  int  // proven: this many refreshNow channels would never yield nor close
	watchdog  bool // unproven: threads did not finish within the watchdog
	errs      []string
	stops     int32
	nowCalls  int32
	yielded   int32
	closedCh  int32
	overlapOp bool // by plan: a stop runs in a thread while another thread still has operations
	dump      string
	followed  bool // no stop in the history: the last refresh request was waited for
}

func vxC17RunRefresh(c *vxC17DCase) *vxC17DResult {
	res := &vxC17DResult{}
	var started, running int32
	var overlap int32
	var mu sync.Mutex
	addErr := func(f string, a ...interface{}) {
		mu.Lock()
		res.errs = append(res.errs, fmt.Sprintf(f, a...))
		mu.Unlock()
	}
	fn := func() error {
		n := atomic.AddInt32(&started, 1)
		if atomic.AddInt32(&running, 1) > 1 {
			atomic.StoreInt32(&overlap, 1)
		}
		vxSpin(c.Work)
		atomic.AddInt32(&running, -1)
		return vxC17SeqErr(n)
	}
	iv := time.Duration(c.IntervalUs) * time.Microsecond
	if iv <= 0 {
		iv = time.Microsecond
	}
	d := newRefreshDebouncer(iv, fn)
	var stopBegun int32 // number of stop calls that have begun (any thread)
	var lastReq, requests int32
	check := func(s0 int32, stopSeen int32, ch <-chan error) {
		err, ok := vxC17Await(ch)
		if ok {
			atomic.AddInt32(&res.yielded, 1)
			se, isSeq := err.(vxC17SeqErr)
			if !isSeq {
				addErr("refreshNow yielded %v, which no run of the refresh function returned", err)
			} else if int32(se) <= s0 {
				addErr("refreshNow requested after %d runs had started was answered with the result of run %d (a run that began before the request)", s0, int32(se))
			}
			// the channel must now be closed or empty
			return
		}
		atomic.AddInt32(&res.closedCh, 1)
		if stopSeen == 0 && atomic.LoadInt32(&stopBegun) == 0 {
			addErr("refreshNow's channel was closed without a value although stop was never requested")
		}
	}
	gate := make(chan struct{})
	var wg sync.WaitGroup
	for ti := range c.Threads {
		ops := c.Threads[ti]
		wg.Add(1)
		go func() {
			defer wg.Done()
			defer func() {
				if r := recover(); r != nil {
					addErr("panic in a debouncer operation: %v", r)
				}
			}()
			type pend struct {
				s0, st int32
				ch     <-chan error
			}
			var later []pend
			<-gate
			for _, op := range ops {
				switch op.Op {
				case "debounce":
					s0 := atomic.LoadInt32(&started)
					d.debounce()
					for { // the latest request: a run must begin after it
						old := atomic.LoadInt32(&lastReq)
						if s0 < old || atomic.CompareAndSwapInt32(&lastReq, old, s0) {
							break
						}
					}
					atomic.AddInt32(&requests, 1)
				case "now", "nowlater":
					atomic.AddInt32(&res.nowCalls, 1)
					s0 := atomic.LoadInt32(&started)
					ch := d.refreshNow()
					if op.Op == "now" {
						check(s0, 0, ch)
					} else {
						later = append(later, pend{s0, 0, ch})
					}
				case "stop":
					atomic.AddInt32(&stopBegun, 1)
					d.stop()
					atomic.AddInt32(&res.stops, 1)
				case "spin":
					vxSpin(op.N)
				}
			}
			for _, p := range later {
				check(p.s0, p.st, p.ch)
			}
		}()
	}
	done := make(chan struct{})
	go func() { wg.Wait(); close(done) }()
	close(gate)
	vxC17Supervise(res, done, "refreshDebouncer", func() { // release a parked stop
		select {
		case <-d.quit:
		default:
		}
	}, func() { // release parked listeners
		d.mu.Lock()
		if d.broadcaster != nil {
			d.broadcaster.stop()
			d.broadcaster = nil
		}
		d.mu.Unlock()
	})
	if res.watchdog {
		return res
	}
	if atomic.LoadInt32(&stopBegun) == 0 && atomic.LoadInt32(&requests) > 0 {
		// C16: every request for a refresh is followed by a refresh that begins after it - also one that was made
		// while an earlier refresh was running (what that one read may be older than the event behind the request)
		need := atomic.LoadInt32(&lastReq)
		dl := time.Now().Add(2 * time.Second)
		for atomic.LoadInt32(&started) <= need {
			if time.Now().After(dl) {
				addErr("a refresh was requested when %d runs had begun; 2 s later (interval %v) no further run has begun: the request was dropped", need, iv)
				break
			}
			time.Sleep(50 * time.Microsecond)
		}
		res.followed = true
	}
	// final stop by the director: must return as well (second stop if a thread stopped already)
	fin := make(chan struct{})
	go func() {
		defer close(fin)
		atomic.AddInt32(&stopBegun, 1)
		d.stop()
	}()
	res2 := &vxC17DResult{}
	vxC17Supervise(res2, fin, "refreshDebouncer", func() {
		select {
		case <-d.quit:
		default:
		}
	}, func() {})
	res.stopHang = res.stopHang || res2.stopHang
	res.watchdog = res2.watchdog
	if res2.dump != "" {
		res.dump = res2.dump
	}
	if atomic.LoadInt32(&overlap) != 0 {
		addErr("two runs of the refresh function overlapped")
	}
	// the flusher goroutine must be gone shortly after stop
	dl := time.Now().Add(vxC17Watchdog)
	for {
		_, _, fl := vxC17Stuck("refreshDebouncer")
		if !fl {
			break
		}
		if time.Now().After(dl) {
			addErr("the flusher goroutine is still alive %v after stop returned", vxC17Watchdog)
			break
		}
		time.Sleep(200 * time.Microsecond)
	}
	return res
}

// vxC17Supervise waits for done. While waiting it looks for goroutines that are provably parked
// for ever (two consecutive dumps agree), records that and releases them so the case can finish.
func vxC17Supervise(res *vxC17DResult, done <-chan struct{}, typ string, releaseStop, releaseWait func()) {
	dl := time.Now().Add(vxC17Watchdog)
	var prevStop, prevWait []int
	wait := 500 * time.Microsecond
	for {
		t := time.NewTimer(wait)
		select {
		case <-done:
			t.Stop()
			return
		case <-t.C:
		}
		if wait < 20*time.Millisecond {
			wait *= 2
		}
		st, wt, fl := vxC17Stuck(typ)
		if !fl {
			if len(st) > 0 && vxSameInts(st, prevStop) {
				res.stopHang = true
				releaseStop()
				st = nil
			}
			if len(wt) > 0 && vxSameInts(wt, prevWait) {
				res.waitHang += len(wt)
				releaseWait()
				wt = nil
			}
		}
		prevStop, prevWait = st, wt
		if time.Now().After(dl) {
			res.watchdog = true
			var b strings.Builder
			for _, g := range vxGoroutines() {
				for _, f := range g.Funcs {
					if strings.HasPrefix(f, vxPkgPath+".") {
						b.WriteString(g.Text + "\n\n")
						break
					}
				}
			}
			res.dump = b.String()
			releaseStop()
			releaseWait()
			return
		}
	}
}

func vxC17RunEvent(c *vxC17DCase) *vxC17DResult {
	res := &vxC17DResult{}
	var mu sync.Mutex
	addErr := func(f string, a ...interface{}) {
		mu.Lock()
		res.errs = append(res.errs, fmt.Sprintf(f, a...))
		mu.Unlock()
	}
	delivered := map[int]int{}
	var sent int32
	e := newEventDebouncer("vx", nil, vxQuietLogger)
	// the callback is invoked on its own goroutine by flush; count those goroutines ourselves
	e.mu.Lock()
	e.callback = func(fs []frame) {
		vxSpin(c.Work)
		mu.Lock()
		for _, f := range fs {
			if vf, ok := f.(vxC17Frame); ok {
				delivered[vf.id]++
			} else {
				res.errs = append(res.errs, fmt.Sprintf("callback received a frame that was never debounced: %T", f))
			}
		}
		mu.Unlock()
	}
	e.mu.Unlock()
	gate := make(chan struct{})
	var wg sync.WaitGroup
	for ti := range c.Threads {
		ops := c.Threads[ti]
		ti := ti
		wg.Add(1)
		go func() {
			defer wg.Done()
			defer func() {
				if r := recover(); r != nil {
					addErr("panic in a debouncer operation: %v", r)
				}
			}()
			<-gate
			for oi, op := range ops {
				switch op.Op {
				case "debounce":
					atomic.AddInt32(&sent, 1)
					e.debounce(vxC17Frame{id: ti*1000 + oi})
				case "fire": // the debounce time elapses now
					e.mu.Lock()
					e.timer.Reset(time.Duration(c.IntervalUs) * time.Microsecond)
					e.mu.Unlock()
				case "stop":
					e.stop()
					atomic.AddInt32(&res.stops, 1)
				case "spin":
					vxSpin(op.N)
				}
			}
		}()
	}
	done := make(chan struct{})
	go func() { wg.Wait(); close(done) }()
	close(gate)
	vxC17Supervise(res, done, "eventDebouncer", func() {
		select {
		case <-e.quit:
		default:
		}
	}, func() {})
	if res.watchdog {
		return res
	}
	if res.stops == 0 {
		fin := make(chan struct{})
		go func() { defer close(fin); e.stop() }()
		res2 := &vxC17DResult{}
		vxC17Supervise(res2, fin, "eventDebouncer", func() {
			select {
			case <-e.quit:
			default:
			}
		}, func() {})
		res.stopHang = res.stopHang || res2.stopHang
		res.watchdog = res2.watchdog
		res.dump = res2.dump
	}
	// let callbacks that were already launched finish (they run on goroutines named ...flush.func / callback)
	dl := time.Now().Add(vxC17Watchdog)
	for {
		busy := false
		for _, g := range vxGoroutines() {
			if strings.HasSuffix(g.Created, "(*eventDebouncer).flush") {
				busy = true
			}
		}
		if !busy || time.Now().After(dl) {
			break
		}
		time.Sleep(100 * time.Microsecond)
	}
	mu.Lock()
	for id, n := range delivered {
		if n > 1 {
			res.errs = append(res.errs, fmt.Sprintf("event frame %d was delivered %d times", id, n))
		}
	}
	mu.Unlock()
	return res
}

func vxC17DrawOps(t *rapid.T, kind string, label string) []vxC17DOp {
	n := rapid.IntRange(1, 6).Draw(t, label+"_n")
	var ops []vxC17DOp
	for i := 0; i < n; i++ {
		var names []string
		if kind == "refresh" {
			names = []string{"debounce", "now", "nowlater", "stop", "spin", "now", "debounce"}
		} else {
			names = []string{"debounce", "fire", "spin", "debounce", "fire"}
		}
		op := vxC17DOp{Op: rapid.SampledFrom(names).Draw(t, label+"_op")}
		if op.Op == "spin" {
			op.N = rapid.IntRange(1, 30).Draw(t, label+"_spin")
		}
		ops = append(ops, op)
	}
	return ops
}

func TestVxC17Debouncer(t *testing.T) {
	vx.Check(t, vx.Prop{
		ID: "C17", Part: "TestVxC17Debouncer",
		Rule: "a refreshDebouncer (or eventDebouncer) with a 1-50us interval driven by 2-3 goroutines, each running a pre-drawn list of {debounce, refreshNow (wait at once / later), stop, spin; event: debounce, fire, stop once}; non-trivial = some thread calls stop while another thread still has operations to run, or a refreshNow is in the plan; distinct by the whole plan",
		Draw: func(t *rapid.T) interface{} {
			c := &vxC17DCase{Kind: rapid.SampledFrom([]string{"refresh", "refresh", "refresh", "event"}).Draw(t, "kind"),
				IntervalUs: rapid.SampledFrom([]int{1, 1, 2, 5, 20, 50}).Draw(t, "iv"),
				Work:       rapid.SampledFrom([]int{0, 0, 1, 3, 10}).Draw(t, "work")}
			nt := rapid.IntRange(2, 3).Draw(t, "threads")
			for i := 0; i < nt; i++ {
				c.Threads = append(c.Threads, vxC17DrawOps(t, c.Kind, "t"+strconv.Itoa(i)))
			}
			if c.Kind == "event" && rapid.Bool().Draw(t, "evstop") {
				// exactly one stop, at a drawn position of a drawn thread
				ti := rapid.IntRange(0, nt-1).Draw(t, "stop_t")
				at := rapid.IntRange(0, len(c.Threads[ti])).Draw(t, "stop_at")
				ops := append([]vxC17DOp{}, c.Threads[ti][:at]...)
				ops = append(ops, vxC17DOp{Op: "stop"})
				c.Threads[ti] = append(ops, c.Threads[ti][at:]...)
			}
			return c
		},
		New: func() interface{} { return &vxC17DCase{} },
		Run: func(ci interface{}, k *vstats.Case) error {
			c := ci.(*vxC17DCase)
			if len(c.Threads) == 0 {
				return nil
			}
			stops, nows, others := 0, 0, 0
			for _, th := range c.Threads {
				for _, op := range th {
					switch op.Op {
					case "stop":
						stops++
					case "now", "nowlater":
						nows++
					case "debounce", "fire":
						others++
					}
				}
			}
			if c.Kind == "event" && stops > 1 {
				return nil // outside the domain: Session.Close stops an eventDebouncer exactly once
			}
			k.Class("kind=" + c.Kind)
			k.Class(fmt.Sprintf("%s:stops=%d", c.Kind, vxMin(stops, 3)))
			if (stops > 0 && len(c.Threads) > 1) || nows > 0 {
				k.NonTrivial()
			}
			var res *vxC17DResult
			if c.Kind == "event" {
				res = vxC17RunEvent(c)
			} else {
				res = vxC17RunRefresh(c)
			}
			if c.Kind == "refresh" && res.followed {
				k.Class("refresh requests followed up (no stop in the history)")
			}
			if c.Kind == "refresh" {
				switch {
				case res.yielded > 0 && res.closedCh > 0:
					k.Class("refreshNow:yielded+closed")
				case res.yielded > 0:
					k.Class("refreshNow:yielded")
				case res.closedCh > 0:
					k.Class("refreshNow:closed")
				}
			}
			if res.watchdog {
				return fmt.Errorf("%s machine did not finish within %v and no goroutine is provably parked for ever; goroutines in gocql:\n%s", c.Kind, vxC17Watchdog, res.dump)
			}
			if len(res.errs) > 0 {
				sort.Strings(res.errs)
				return errors.New(res.errs[0])
			}
			if res.stopHang {
				k.Class("stop-deadlock")
				return vx.Known("C17-refresh-stop-deadlock", "%sDebouncer.stop() is parked for ever on `quit <- struct{}{}`: its flusher goroutine woke for another reason, saw stopped and returned, so nobody will ever receive (Session.Close hangs the same way)", c.Kind)
			}
			if res.waitHang > 0 {
				k.Class("refreshNow-never-answered")
				return vx.Known("C17-refreshnow-after-stop", "%d channel(s) returned by refreshDebouncer.refreshNow() will never yield nor be closed: the request was registered after the flusher had exited (stop), so Session.refreshRing blocks for ever", res.waitHang)
			}
			return nil
		}})
}

func vxMin(a, b int) int {
	if a < b {
		return a
	}
	return b
}

// =============================================================================================
// Session-level parts

type vxC17Fault struct {
	Kind string `json:"kind"` // "" | refuse | stall | hs | die
	From int    `json:"from"` // refuse/stall/hs: applies to the host's dials with index >= From
	Step int    `json:"step"` // hs: 0 OPTIONS, 1 STARTUP, 2 first request after READY
	How  string `json:"how"`  // hs: close | error | silent
	K    int    `json:"k"`    // die: the connection dies on its K-th request after READY
}

type vxC17Act struct {
	Kind string `json:"kind"` // query | hold | kill | killctl | refresh | down | up | remove | restore | event | heal | pause | close | close2
	Host int    `json:"host,omitempty"`
	N    int    `json:"n,omitempty"`
	Spin int    `json:"spin,omitempty"` // Gosched calls before the actor starts (interleaving knob)
}

type vxC17Case struct {
	Proto     int          `json:"proto"`
	Hosts     int          `json:"hosts"`
	NumConns  int          `json:"num_conns"`
	TokenAw   bool         `json:"token_aware"`
	Reconnect int          `json:"reconnect_ms"`
	Faults    []vxC17Fault `json:"faults"`
	Groups    [][]vxC17Act `json:"groups"`  // each group runs concurrently; groups run one after another
	Release   bool         `json:"release"` // held queries are answered when the rest of their group is done (else never)
	WaitHeld  bool         `json:"wait_held"`
	Post      int          `json:"post"` // queries after Close
	TOLimit   int          `json:"timeout_limit,omitempty"` // >0: the deprecated global TimeoutLimit: a connection is closed after that many request timeouts (held queries time out)
	Keyspace  bool         `json:"keyspace,omitempty"` // ClusterConfig.Keyspace set: every pool connection sends USE as its first request (so hs step 2 fails the USE)
	Retry0    bool         `json:"retry0,omitempty"` // a ReconnectionPolicy that allows no connection attempt at all (MaxRetries 0): no pool can ever be filled
	Ready     bool         `json:"ready,omitempty"`  // the host selection policy is a ReadyPolicy (SingleHostReadyPolicy): Session.init stops waiting as soon as one host is connected
	CloseErr  bool         `json:"close_err,omitempty"` // closing a connection closes it and returns an error (as a TLS connection whose close_notify cannot be sent does)
}

const (
	vxC17Timeout     = 600 * time.Millisecond
	vxC17OpWatchdog  = 30 * time.Second
	vxC17CloseWD     = 15 * time.Second
	vxC17DrainQuick  = 5 * time.Second
	vxC17DrainMax    = 15 * time.Second
	vxC17RecoverWD   = 12 * time.Second
	vxC17QuiesceWait = 10 * time.Second
)

// vxC17Timing marks a violation that was judged by a watchdog (re-run once to confirm).
type vxC17Timing struct{ msg string }

func (e *vxC17Timing) Error() string { return e.msg }

type vxC17World struct {
	c  *vxC17Case
	cl *vnode.Cluster
	s  *Session

	mu             sync.Mutex
	dials          map[string]int
	connIdx        map[int]int
	conns          map[int]*vnode.ServerConn
	ready          map[int]bool
	registered     map[int]bool
	nreq           map[int]int
	held           []*vnode.ReqCtx
	connectErrs    map[string]int
	usedAt         map[int]time.Time // ServerConn.ID -> when its USE <keyspace> was answered (Keyspace cases)
	dialStack      map[int]string // ServerConn.ID -> who dialled (driver frames)
	viol           []string
	maxPool        int
	recoveryChecks int
	maxOpen        int

	closeOnce  sync.Once
	ctlAtClose *Conn                  // the control connection that was current when Close began
	poolsAtCl  map[*hostConnPool]bool // the host pools that existed when Close began

	faultOff []int32 // per host, atomic: 1 = fault healed
	relaxed  []int32 // per host, atomic: 1 = pool replacement may be in progress (node-side bound not sampled)
}

func (w *vxC17World) violate(f string, a ...interface{}) {
	w.mu.Lock()
	if len(w.viol) < 8 {
		w.viol = append(w.viol, fmt.Sprintf(f, a...))
	}
	w.mu.Unlock()
}

func (w *vxC17World) hostIdx(addr string) int {
	h, _, err := net.SplitHostPort(addr)
	if err != nil {
		h = addr
	}
	i := strings.LastIndexByte(h, '.')
	n, _ := strconv.Atoi(h[i+1:])
	return n - 1
}

type vxC17TimeoutErr struct{}

func (vxC17TimeoutErr) Error() string   { return "vx: dial i/o timeout" }
func (vxC17TimeoutErr) Timeout() bool   { return true }
func (vxC17TimeoutErr) Temporary() bool { return true }

// DialContext is the session's Dialer: it applies the dial faults itself (like net.Dialer it
// honours a connect timeout), otherwise connects to the scripted node.
func (w *vxC17World) DialContext(ctx context.Context, network, addr string) (net.Conn, error) {
	hi := w.hostIdx(addr)
	w.mu.Lock()
	idx := w.dials[addr]
	w.dials[addr]++
	w.mu.Unlock()
	if hi >= 0 && hi < len(w.c.Faults) && atomic.LoadInt32(&w.faultOff[hi]) == 0 {
		f := w.c.Faults[hi]
		if idx >= f.From {
			switch f.Kind {
			case "refuse":
				return nil, &net.OpError{Op: "dial", Net: network, Err: vnode.ErrRefused}
			case "stall":
				t := time.NewTimer(vxC17Timeout)
				defer t.Stop()
				select {
				case <-ctx.Done():
					return nil, ctx.Err()
				case <-t.C:
					return nil, &net.OpError{Op: "dial", Net: network, Err: vxC17TimeoutErr{}}
				}
			}
		}
	}
	nc, err := w.cl.DialContext(ctx, network, addr)
	if err != nil {
		return nil, err
	}
	cc := nc.(*vnode.Conn)
	if hi >= 0 && hi < len(w.cl.Nodes()) {
		for _, sc := range w.cl.Nodes()[hi].Conns() {
			if sc.Client == cc {
				w.mu.Lock()
				w.connIdx[sc.ID] = idx
				w.conns[sc.ID] = sc
				w.dialStack[sc.ID] = vxC17Callers()
				w.mu.Unlock()
			}
		}
	}
	return nc, nil
}

func (w *vxC17World) ObserveConnect(o ObservedConnect) {
	if o.Err != nil && o.Host != nil {
		w.mu.Lock()
		w.connectErrs[o.Host.ConnectAddress().String()]++
		w.mu.Unlock()
	}
}

// intercept is the node-side script of host hi.
func (w *vxC17World) intercept(hi int) func(rc *vnode.ReqCtx) bool {
	f := w.c.Faults[hi]
	return func(rc *vnode.ReqCtx) bool {
		id := rc.Conn.ID
		w.mu.Lock()
		idx, known := w.connIdx[id]
		ready := w.ready[id]
		w.mu.Unlock()
		active := known && atomic.LoadInt32(&w.faultOff[hi]) == 0
		if !ready {
			step := -1
			switch rc.Req.Kind {
			case "OPTIONS":
				step = 0
			case "STARTUP":
				step = 1
			}
			if active && f.Kind == "hs" && idx >= f.From && step == f.Step {
				return w.hsFault(rc, f)
			}
			if rc.Req.Kind == "STARTUP" {
				rc.Conn.Started = true
				if rc.Reply(&cqlspec.Response{Kind: "READY"}) == nil {
					w.mu.Lock()
					w.ready[id] = true
					w.mu.Unlock()
				}
				return true
			}
			return false
		}
		w.mu.Lock()
		w.nreq[id]++
		n := w.nreq[id]
		w.mu.Unlock()
		if active && f.Kind == "hs" && idx >= f.From && f.Step == 2 && n == 1 {
			return w.hsFault(rc, f)
		}
		if active && f.Kind == "die" && n >= f.K {
			rc.Conn.Close()
			return true
		}
		switch rc.Req.Kind {
		case "REGISTER":
			w.mu.Lock()
			w.registered[id] = true
			w.mu.Unlock()
		case "QUERY":
			if strings.HasPrefix(strings.ToUpper(rc.Req.Statement), "USE ") {
				defer func() {
					w.mu.Lock()
					w.usedAt[id] = time.Now()
					w.mu.Unlock()
				}()
			}
			if strings.HasPrefix(rc.Req.Statement, "LIST hold") {
				w.mu.Lock()
				w.held = append(w.held, rc)
				w.mu.Unlock()
				return true
			}
		}
		return false
	}
}

func (w *vxC17World) hsFault(rc *vnode.ReqCtx, f vxC17Fault) bool {
	switch f.How {
	case "error":
		rc.Reply(&cqlspec.Response{Kind: "ERROR", Code: cqlspec.ErrServer, Message: "vx: scripted failure"})
	case "silent":
	default:
		rc.Conn.Close()
	}
	return true
}

func (w *vxC17World) heldCount() int {
	w.mu.Lock()
	defer w.mu.Unlock()
	return len(w.held)
}

func (w *vxC17World) releaseHeld() {
	w.mu.Lock()
	h := w.held
	w.held = nil
	w.mu.Unlock()
	for _, rc := range h {
		rc.Reply(vxVoid())
	}
}

// poolConns returns the open, handshaken, non-control connections of host hi (oldest first).
func (w *vxC17World) nodeConns(hi int, control bool) []*vnode.ServerConn {
	w.mu.Lock()
	defer w.mu.Unlock()
	var ids []int
	for id, sc := range w.conns {
		if sc.Node != w.cl.Nodes()[hi] || !w.ready[id] || w.registered[id] != control {
			continue
		}
		if sc.C.Closed() || sc.Client.Closed() {
			continue
		}
		ids = append(ids, id)
	}
	sort.Ints(ids)
	var out []*vnode.ServerConn
	for _, id := range ids {
		out = append(out, w.conns[id])
	}
	return out
}

func (w *vxC17World) sendEvent(ev *cqlspec.Response) {
	for hi := range w.cl.Nodes() {
		for _, sc := range w.nodeConns(hi, true) {
			e := *ev
			e.Kind = "EVENT"
			e.Stream = -1
			e.Version = w.c.Proto
			sc.Send(&e)
		}
	}
}

func vxC17IP(hi int) string { return "10.0.0." + itoa(hi+1) }

func vxC17AddrHex(hi int) string { return hex.EncodeToString(net.ParseIP(vxC17IP(hi)).To4()) }

// sample checks the always-true bounds. It may run at any moment.
func (w *vxC17World) sample() {
	s := w.s
	nc := w.c.NumConns
	s.pool.mu.RLock()
	for id, p := range s.pool.hostConnPools {
		if n := p.Size(); n > nc {
			w.violate("pool of host %s holds %d connections, NumConns is %d", id, n, nc)
		} else {
			w.mu.Lock()
			if n > w.maxPool {
				w.maxPool = n
			}
			w.mu.Unlock()
		}
	}
	s.pool.mu.RUnlock()
	total, strict := 0, true
	for hi, n := range w.cl.Nodes() {
		o := n.OpenConns()
		total += o
		if atomic.LoadInt32(&w.relaxed[hi]) != 0 {
			strict = false
			continue
		}
		if o > nc+1 {
			w.violate("node %s has %d open connections from the driver; at most NumConns=%d plus one control connection are allowed", n.Spec.IP, o, nc)
		}
	}
	if strict && total > nc*len(w.cl.Nodes())+1 {
		w.violate("the cluster has %d open connections from the driver; %d hosts x NumConns=%d plus one control connection are allowed", total, len(w.cl.Nodes()), nc)
	}
	w.mu.Lock()
	if total > w.maxOpen {
		w.maxOpen = total
	}
	w.mu.Unlock()
}

func (w *vxC17World) firstViolation() string {
	w.mu.Lock()
	defer w.mu.Unlock()
	if len(w.viol) > 0 {
		return w.viol[0]
	}
	return ""
}

func (w *vxC17World) truthWithout(removed map[int]bool) []vnode.HostSpec {
	var out []vnode.HostSpec
	for i, n := range w.cl.Nodes() {
		if !removed[i] {
			out = append(out, n.Spec)
		}
	}
	return out
}

// query runs one statement of the given flavour; every outcome but a panic is legal before Close.
func (w *vxC17World) query(tag string, i int) error {
	s := w.s
	switch i % 4 {
	case 0:
		return s.Query("LIST " + tag + itoa(i)).Exec()
	case 1:
		return s.Query("SELECT v FROM ks.t" + itoa(i%3) + " WHERE k = 1").Exec()
	case 2:
		b := s.NewBatch(LoggedBatch)
		b.Query("INSERT INTO ks.t (k) VALUES (1)")
		return s.ExecuteBatch(b)
	default:
		it := s.Query("LIST " + tag + "it" + itoa(i)).Iter()
		for it.Scan() {
		}
		return it.Close()
	}
}

func vxC17Dump() string {
	var b strings.Builder
	for _, g := range vxGoroutines() {
		for _, f := range g.Funcs {
			if strings.HasPrefix(f, vxPkgPath+".") || strings.HasPrefix(f, vxPkgPath+"/") {
				b.WriteString(g.Text + "\n\n")
				break
			}
		}
	}
	s := b.String()
	if len(s) > 60000 {
		s = s[:60000] + "\n...[dump cut]"
	}
	return s
}

// vxC17Pollution: ids of driver goroutines that an earlier case of this process left behind for good.
var vxC17Pollution = map[int]bool{}

type vxC17Outcome struct {
	hbLeak       string // a controlConn.heartBeat goroutine that started only after controlConn.close
	stopDeadlock bool   // proven: refreshDebouncer.stop parked for ever inside Session.Close
	refreshStuck int    // proven: goroutines parked for ever in Session.refreshRing (no flusher left)
	lateConns    string // connections established into the closed session and never closed
	selfDeadlock bool   // proven: the ring-refresh flusher waits for a refresh that only itself could run
}

type vxC17ParkedSet struct {
	self    []int // flusher goroutines parked in Session.refreshRing (reached through refreshFn -> control reconnect)
	stop    []int // refreshDebouncer.stop parked on its send while no flusher exists
	refresh []int // Session.refreshRing parked while no flusher exists
}

// vxC17Parked looks for goroutines that can provably never continue.
func vxC17Parked() vxC17ParkedSet {
	var ps vxC17ParkedSet
	gs := vxGoroutines()
	healthy := false
	for i := range gs {
		g := &gs[i]
		if !g.has("(*refreshDebouncer).flusher") {
			continue
		}
		if len(g.Funcs) > 0 && g.State == "chan receive" && strings.HasSuffix(g.Funcs[0], "(*Session).refreshRing") {
			ps.self = append(ps.self, g.ID)
		} else {
			healthy = true
		}
	}
	if healthy || len(ps.self) > 0 {
		return ps
	}
	for i := range gs {
		g := &gs[i]
		if len(g.Funcs) == 0 {
			continue
		}
		if g.State == "chan send" && strings.HasSuffix(g.Funcs[0], "(*refreshDebouncer).stop") {
			ps.stop = append(ps.stop, g.ID)
		}
		if g.State == "chan receive" && strings.HasSuffix(g.Funcs[0], "(*Session).refreshRing") {
			ps.refresh = append(ps.refresh, g.ID)
		}
	}
	return ps
}

// supervise waits for done; meanwhile it detects and releases provably parked goroutines.
func (w *vxC17World) supervise(done <-chan struct{}, wd time.Duration, out *vxC17Outcome) bool {
	dl := time.Now().Add(wd)
	var prev vxC17ParkedSet
	wait := 2 * time.Millisecond
	for {
		t := time.NewTimer(wait)
		select {
		case <-done:
			t.Stop()
			return true
		case <-t.C:
		}
		if wait < 50*time.Millisecond {
			wait *= 2
		}
		w.unpark(out, &prev)
		if time.Now().After(dl) {
			return false
		}
	}
}

// unpark releases goroutines that two consecutive dumps show parked for ever, and records why.
func (w *vxC17World) unpark(out *vxC17Outcome, prev *vxC17ParkedSet) {
	ps := vxC17Parked()
	d := w.s.ringRefresher
	closeListeners := func() {
		d.mu.Lock()
		if d.broadcaster != nil {
			d.broadcaster.stop()
			d.broadcaster = nil
		}
		d.mu.Unlock()
	}
	if len(ps.self) > 0 && vxSameInts(ps.self, prev.self) {
		out.selfDeadlock = true
		closeListeners()
		ps.self = nil
	}
	if len(ps.stop) > 0 && vxSameInts(ps.stop, prev.stop) {
		out.stopDeadlock = true
		select {
		case <-d.quit:
		default:
		}
		ps.stop = nil
	}
	if len(ps.refresh) > 0 && vxSameInts(ps.refresh, prev.refresh) {
		out.refreshStuck += len(ps.refresh)
		closeListeners()
		ps.refresh = nil
	}
	*prev = ps
}

// vxC17Callers names the driver functions on the current call stack (innermost first).
func vxC17Callers() string {
	pcs := make([]uintptr, 40)
	n := runtime.Callers(2, pcs)
	fr := runtime.CallersFrames(pcs[:n])
	var out []string
	for {
		f, more := fr.Next()
		if vxIsDriverFunc(f.Function) {
			out = append(out, strings.TrimPrefix(f.Function, vxPkgPath+"."))
		}
		if !more {
			break
		}
	}
	return strings.Join(out, " < ")
}

// leaked describes the client connections that are still open.
func (w *vxC17World) leaked() string {
	var parts []string
	w.mu.Lock()
	defer w.mu.Unlock()
	var ids []int
	for id, sc := range w.conns {
		if !sc.Client.Closed() {
			ids = append(ids, id)
		}
	}
	sort.Ints(ids)
	for _, id := range ids {
		sc := w.conns[id]
		kind := "pool"
		if w.registered[id] {
			kind = "control"
		}
		parts = append(parts, fmt.Sprintf("conn#%d to %s (%s, handshake done=%v, node side closed=%v) dialled by %s", id, sc.Node.Spec.IP, kind, w.ready[id], sc.C.Closed(), w.dialStack[id]))
	}
	return strings.Join(parts, "\n")
}

func (w *vxC17World) openClientConns() (open int, total int) {
	for _, n := range w.cl.Nodes() {
		for _, sc := range n.Conns() {
			total++
			if !sc.Client.Closed() {
				open++
			}
		}
	}
	return
}

// closeSession is Session.Close preceded (once) by a snapshot of what Close has to close.
func (w *vxC17World) closeSession() {
	s := w.s
	w.closeOnce.Do(func() {
		w.poolsAtCl = map[*hostConnPool]bool{}
		s.pool.mu.RLock()
		for _, p := range s.pool.hostConnPools {
			w.poolsAtCl[p] = true
		}
		s.pool.mu.RUnlock()
		if s.control != nil {
			if ch := s.control.getConn(); ch != nil {
				w.ctlAtClose = ch.conn
			}
		}
	})
	s.Close()
}

// vxC17Run evaluates one case once.
func vxC17Run(c *vxC17Case, k *vstats.Case) error {
	if c.Hosts < 1 || c.NumConns < 1 || len(c.Faults) != c.Hosts {
		return nil
	}
	class := func(s string) {
		if k != nil {
			k.Class(s)
		}
	}
	// goroutines left behind by an earlier (failed) case must not be charged to this one
	pollution := vxC17Pollution
	for dl := time.Now().Add(2 * time.Second); ; {
		var fresh []vxGor
		for _, g := range vxDriverGoroutines() {
			if !pollution[g.ID] {
				fresh = append(fresh, g)
			}
		}
		if len(fresh) == 0 {
			break
		}
		if time.Now().After(dl) {
			for _, g := range fresh {
				pollution[g.ID] = true
			}
			if os.Getenv("VX_C17_DEBUG") != "" {
				fmt.Fprintf(os.Stderr, "VXC17 pollution: %s\n", vxGorSummary(fresh))
			}
			break
		}
		time.Sleep(2 * time.Millisecond)
	}

	TimeoutLimit = int64(c.TOLimit) // package-level knob of the driver; cases run one at a time
	defer func() { TimeoutLimit = 0 }()
	t0 := time.Now()
	dbg := func(what string) {
		if os.Getenv("VX_C17_DEBUG") != "" {
			fmt.Fprintf(os.Stderr, "VXC17 %8.1fms %s\n", float64(time.Since(t0).Microseconds())/1000, what)
		}
	}
	cl := vnode.NewCluster(vxSpecs(c.Hosts, 2))
	if c.CloseErr {
		cl.PlanFor = func(string, int) vnode.Plan { return vnode.Plan{CloseErr: true} }
		class("connections whose Close reports an error")
	}
	w := &vxC17World{c: c, cl: cl, dials: map[string]int{}, connIdx: map[int]int{}, conns: map[int]*vnode.ServerConn{},
		dialStack: map[int]string{}, ready: map[int]bool{}, registered: map[int]bool{}, nreq: map[int]int{}, connectErrs: map[string]int{}, usedAt: map[int]time.Time{},
		faultOff: make([]int32, c.Hosts), relaxed: make([]int32, c.Hosts)}
	for hi, n := range cl.Nodes() {
		n.Intercept = w.intercept(hi)
	}
	cfg := vxClusterConfig(cl, c.Proto, func(cfg *ClusterConfig) {
		cfg.Dialer = w
		cfg.NumConns = c.NumConns
		cfg.Timeout = vxC17Timeout
		cfg.ConnectTimeout = vxC17Timeout
		cfg.ConnectObserver = w
		cfg.ReconnectInterval = time.Duration(c.Reconnect) * time.Millisecond
		if c.Keyspace {
			cfg.Keyspace = "ks1"
		}
		if c.TokenAw {
			cfg.PoolConfig.HostSelectionPolicy = TokenAwareHostPolicy(RoundRobinHostPolicy())
		}
		if c.Ready {
			inner := cfg.PoolConfig.HostSelectionPolicy
			if inner == nil {
				inner = RoundRobinHostPolicy()
			}
			cfg.PoolConfig.HostSelectionPolicy = SingleHostReadyPolicy(inner)
		}
		if c.Retry0 {
			cfg.ReconnectionPolicy = &ConstantReconnectionPolicy{MaxRetries: 0, Interval: time.Millisecond}
		}
	})
	if c.Ready {
		class("ready policy")
	}
	if c.Retry0 {
		class("reconnection policy without attempts")
	}
	out := &vxC17Outcome{}
	var hard error // first hard violation
	var timing *vxC17Timing

	s, err := cfg.CreateSession()
	if err != nil {
		// NewSession closes what it opened; everything must still drain.
		class("init-failed")
		if e := w.drain(nil, pollution, out, class); e != nil {
			return e
		}
		if out.hbLeak != "" {
			class("known:heartbeat-after-close")
			return vx.Known("C17-control-heartbeat-after-close", "%s: controlConn.close only stops a heartBeat goroutine that has already set state=started; one scheduled later finds state still `starting`, starts, and retries the control connection every second for ever", out.hbLeak)
		}
		return nil
	}
	w.s = s
	class("init-ok")
	dbg("session created")

	stopSampler := make(chan struct{})
	samplerDone := make(chan struct{})
	go func() {
		defer close(samplerDone)
		for {
			select {
			case <-stopSampler:
				return
			default:
			}
			w.sample()
			time.Sleep(100 * time.Microsecond)
		}
	}()

	removed := map[int]bool{}
	disturbed := map[int]bool{} // hosts whose pool may legitimately be gone (down / remove / event / fault)
	for hi, f := range c.Faults {
		if f.Kind != "" {
			disturbed[hi] = true
		}
	}
	closed := false
	var truthMu sync.Mutex
	var afterClose int32
	var closeOverlap bool

	for gi, grp := range c.Groups {
		if hard != nil || timing != nil {
			break
		}
		isCloseGroup := false
		holds, kills := 0, 0
		for _, a := range grp {
			switch a.Kind {
			case "close", "close2":
				isCloseGroup = true
			case "hold":
				holds++
			case "kill":
				kills++
			case "down", "remove", "event":
				disturbed[a.Host%c.Hosts] = true
				atomic.StoreInt32(&w.relaxed[a.Host%c.Hosts], 1)
			case "up", "restore":
				atomic.StoreInt32(&w.relaxed[a.Host%c.Hosts], 1)
			case "killctl":
				// the new control connection makes the driver fill the pool of its host again
			}
		}
		if closed {
			// after Close only queries make sense; everything else is skipped by construction
		}
		if isCloseGroup && len(grp) > 1 {
			closeOverlap = true
		}
		var wg, nonHold sync.WaitGroup
		gate := make(chan struct{})
		for ai, a := range grp {
			a := a
			ai := ai
			wg.Add(1)
			if a.Kind != "hold" {
				nonHold.Add(1)
			}
			go func() {
				defer wg.Done()
				if a.Kind != "hold" {
					defer nonHold.Done()
				}
				<-gate
				vxSpin(a.Spin)
				hi := a.Host % c.Hosts
				switch a.Kind {
				case "query":
					for i := 0; i < a.N; i++ {
						err := w.query("q"+itoa(gi)+"_"+itoa(ai)+"_", i)
						if closed && err != ErrSessionClosed {
							w.violate("query after Close returned %v, want ErrSessionClosed", err)
						}
					}
				case "hold":
					_ = s.Query("LIST hold" + itoa(gi) + "_" + itoa(ai)).Exec()
				case "kill":
					cs := w.nodeConns(hi, false)
					for i := 0; i < len(cs) && i < a.N; i++ {
						if c.Keyspace {
							// a connection that dies before the driver has seen the answer to its USE is a
							// failed connect (hostConnPool.connect returns the error): no promise of recovery then
							w.mu.Lock()
							if at, ok := w.usedAt[cs[i].ID]; !ok || time.Since(at) < 300*time.Millisecond {
								w.connectErrs[vxC17IP(hi)]++
							}
							w.mu.Unlock()
						}
						cs[i].Close()
					}
				case "killctl":
					for h := 0; h < c.Hosts; h++ {
						for _, sc := range w.nodeConns(h, true) {
							sc.Close()
						}
					}
				case "refresh":
					_ = s.refreshRing()
				case "down":
					s.handleNodeDown(net.ParseIP(vxC17IP(hi)), 9042)
				case "up":
					s.handleNodeUp(net.ParseIP(vxC17IP(hi)), 9042)
				case "remove", "restore":
					truthMu.Lock()
					if a.Kind == "remove" {
						n := 0
						for range removed {
							n++
						}
						if n < c.Hosts-1 {
							removed[hi] = true
						}
					} else {
						delete(removed, hi)
					}
					cl.SetTruth(w.truthWithout(removed))
					truthMu.Unlock()
					_ = s.refreshRing()
				case "event":
					ev := &cqlspec.Response{EventType: "STATUS_CHANGE", Change: "DOWN", AddrHex: vxC17AddrHex(hi), Port: 9042}
					switch a.N % 4 {
					case 1:
						ev.Change = "UP"
					case 2:
						ev.EventType, ev.Change = "TOPOLOGY_CHANGE", "NEW_NODE"
					case 3:
						ev.EventType, ev.Change = "TOPOLOGY_CHANGE", "REMOVED_NODE"
					}
					w.sendEvent(ev)
				case "heal":
					atomic.StoreInt32(&w.faultOff[hi], 1)
				case "pause":
					time.Sleep(time.Duration(a.N) * time.Millisecond)
				case "close", "close2":
					if c.WaitHeld && holds > 0 {
						for dl := time.Now().Add(100 * time.Millisecond); w.heldCount() < holds && time.Now().Before(dl); {
							time.Sleep(50 * time.Microsecond)
						}
					}
					w.closeSession()
					if a.Kind == "close2" {
						w.closeSession()
					}
				}
			}()
		}
		close(gate)
		// held queries are answered (or not) once everything else in the group has finished
		nhDone := make(chan struct{})
		go func() { nonHold.Wait(); close(nhDone) }()
		wd := vxC17OpWatchdog
		if isCloseGroup {
			wd = vxC17CloseWD
		}
		if !w.supervise(nhDone, wd, out) {
			what := "an operation of group " + itoa(gi)
			if isCloseGroup {
				what = "Session.Close (or an operation racing it)"
			}
			timing = &vxC17Timing{fmt.Sprintf("%s did not return within %v; goroutines inside gocql:\n%s", what, wd, vxC17Dump())}
			break
		}
		dbg("group " + itoa(gi) + " non-hold actors done")
		if c.Release || isCloseGroup {
			w.releaseHeld()
		}
		allDone := make(chan struct{})
		go func() { wg.Wait(); close(allDone) }()
		if !w.supervise(allDone, vxC17OpWatchdog, out) {
			timing = &vxC17Timing{fmt.Sprintf("a query that the node never answers did not return within %v (Timeout is %v); goroutines inside gocql:\n%s", vxC17OpWatchdog, vxC17Timeout, vxC17Dump())}
			break
		}
		dbg("group " + itoa(gi) + " done")
		if isCloseGroup {
			closed = true
			atomic.StoreInt32(&afterClose, 1)
			continue
		}
		if closed {
			continue
		}
		if v := w.firstViolation(); v != "" {
			hard = errors.New(v)
			break
		}
		// ---- quiescence: bounds hold strictly, killed connections are replaced ----------------
		// a connection closed by the timeout limit must be replaced like one the node killed
		if e := w.settle(disturbed, kills > 0 || (c.TOLimit > 0 && holds > 0), out); e != nil {
			timing = e
			break
		}
		dbg("group " + itoa(gi) + " settled")
	}
	dbg("groups finished")
	close(stopSampler)
	<-samplerDone
	if hard == nil {
		if v := w.firstViolation(); v != "" {
			hard = errors.New(v)
		}
	}

	// ---- after Close -----------------------------------------------------------------------
	if hard == nil && timing == nil {
		if !closed {
			// the plan had no Close (shrunk case): close now
			done := make(chan struct{})
			go func() { defer close(done); w.closeSession() }()
			if !w.supervise(done, vxC17CloseWD, out) {
				timing = &vxC17Timing{fmt.Sprintf("Session.Close did not return within %v; goroutines inside gocql:\n%s", vxC17CloseWD, vxC17Dump())}
			}
			closed = true
		}
	}
	if hard == nil && timing == nil {
		for i := 0; i < c.Post; i++ {
			var err error
			switch i % 3 {
			case 0:
				err = s.Query("LIST after-close" + itoa(i)).Exec()
			case 1:
				b := s.NewBatch(UnloggedBatch)
				b.Query("INSERT INTO after-close (k) VALUES (1)")
				err = s.ExecuteBatch(b)
			default:
				err = s.Query("SELECT after-close FROM t").Iter().Close()
			}
			if err != ErrSessionClosed {
				hard = fmt.Errorf("query %d after Close returned %v, want ErrSessionClosed", i, err)
				break
			}
		}
		if hard == nil {
			for _, l := range cl.AllLogs() {
				if l.Req != nil && strings.Contains(l.Req.Statement, "after-close") {
					hard = fmt.Errorf("a query issued after Close reached node %s: %q", l.Node, l.Req.Statement)
					break
				}
			}
		}
		// a further Close returns
		done := make(chan struct{})
		go func() { defer close(done); s.Close() }()
		select {
		case <-done:
		case <-time.After(vxC17CloseWD):
			timing = &vxC17Timing{fmt.Sprintf("a second Session.Close did not return within %v; goroutines inside gocql:\n%s", vxC17CloseWD, vxC17Dump())}
		}
	}
	w.releaseHeld()
	var drainErr error
	if hard == nil && timing == nil {
		drainErr = w.drain(s, pollution, out, class)
	} else {
		w.cleanup(out)
	}
	dbg("drained")
	if k != nil {
		w.mu.Lock()
		if w.maxPool == c.NumConns {
			k.Class("pool-reached-NumConns")
		}
		if w.recoveryChecks > 0 {
			k.Class("kill-recovery-checked")
		}
		w.mu.Unlock()
		if closeOverlap {
			k.NonTrivial()
		}
	}
	switch {
	case hard != nil:
		return hard
	case timing != nil:
		return timing
	case drainErr != nil:
		return drainErr
	case out.hbLeak != "":
		class("known:heartbeat-after-close")
		return vx.Known("C17-control-heartbeat-after-close", "%s: controlConn.close only stops a heartBeat goroutine that has already set state=started; one scheduled later finds state still `starting`, starts, and retries the control connection every second for ever", out.hbLeak)
	case out.lateConns != "":
		class("known:conn-after-close")
		return vx.Known("C17-conn-after-close", "connections opened into the already closed session are never closed: %s", out.lateConns)
	case out.selfDeadlock:
		class("known:flusher-self-deadlock")
		return vx.Known("C17-refresh-flusher-self-deadlock", "the ring-refresh flusher goroutine is parked for ever in Session.refreshRing: its own refresh query hit a dead control connection, Conn.exec -> closeWithError -> controlConn.HandleError -> reconnect -> Session.refreshRing waits for a refresh that only this goroutine could run (every later refresh, and Session.Close, hang behind it)")
	case out.stopDeadlock:
		class("known:stop-deadlock")
		return vx.Known("C17-refresh-stop-deadlock", "Session.Close is parked for ever in refreshDebouncer.stop() on `quit <- struct{}{}`: no flusher goroutine exists any more (it woke for a refresh request, saw stopped and returned)")
	case out.refreshStuck > 0:
		class("known:refresh-never-answered")
		return vx.Known("C17-refreshnow-after-stop", "%d goroutine(s) parked for ever in Session.refreshRing: refreshNow was registered after the ring-refresh flusher had exited", out.refreshStuck)
	}
	return nil
}

// settle waits until the node-side bounds hold strictly and, for undisturbed healthy hosts, until
// every pool is back at NumConns live connections. Queries keep running meanwhile because a
// pool that lost a connection while it was filling is only refilled by the next Pick.
func (w *vxC17World) settle(disturbed map[int]bool, killed bool, out *vxC17Outcome) *vxC17Timing {
	defer func() {
		if killed {
			w.recoveryChecks++
		}
	}()
	c, s := w.c, w.s
	dl := time.Now().Add(vxC17QuiesceWait)
	for {
		bad := ""
		total := 0
		for _, n := range w.cl.Nodes() {
			o := n.OpenConns()
			total += o
			if o > c.NumConns+1 {
				bad = fmt.Sprintf("node %s still has %d open connections from the driver (NumConns=%d plus at most one control connection)", n.Spec.IP, o, c.NumConns)
			}
		}
		if bad == "" && total > c.NumConns*c.Hosts+1 {
			bad = fmt.Sprintf("the cluster still has %d open connections (hosts=%d x NumConns=%d + 1 control)", total, c.Hosts, c.NumConns)
		}
		if bad == "" {
			break
		}
		if time.Now().After(dl) {
			return &vxC17Timing{bad + fmt.Sprintf(" %v after the last operation finished", vxC17QuiesceWait)}
		}
		time.Sleep(time.Millisecond)
	}
	// the strict node-side bound is sampled again only once no pool is connecting or closing any more: a
	// pool that was replaced may still have connects in flight (they are closed as soon as they complete,
	// later with a keyspace to set); if that takes longer than the wait the hosts simply stay unsampled
	wasRelaxed := false
	for hi := range w.relaxed {
		if atomic.LoadInt32(&w.relaxed[hi]) != 0 {
			wasRelaxed = true
		}
	}
	calm := !wasRelaxed
	for dl2 := time.Now().Add(3 * time.Second); wasRelaxed && time.Now().Before(dl2); {
		busy := false
		for _, g := range vxGoroutines() {
			if g.has(".(*hostConnPool).fill") || g.has(".(*hostConnPool).connect") || g.has(".(*hostConnPool).connectMany") ||
				g.has(".(*hostConnPool).Close") || g.has(".(*Session).dial") || g.has(".(*Session).connect") || g.has(".(*Session).startPoolFill") {
				busy = true
				break
			}
		}
		if !busy {
			calm = true
			break
		}
		time.Sleep(2 * time.Millisecond)
	}
	if calm {
		for hi := range w.relaxed {
			atomic.StoreInt32(&w.relaxed[hi], 0)
		}
	}
	if !killed {
		return nil
	}
	dl = time.Now().Add(vxC17RecoverWD)
	qi := 0
	for {
		bad := ""
		for hi := 0; hi < c.Hosts && bad == ""; hi++ {
			if disturbed[hi] {
				continue
			}
			ip := vxC17IP(hi)
			w.mu.Lock()
			ce := w.connectErrs[ip]
			w.mu.Unlock()
			if ce > 0 {
				continue // a failed connect lets the driver mark the host down; no promise then
			}
			h, ok := s.ring.getHostByIP(ip)
			if !ok {
				bad = "host " + ip + " vanished from the ring"
				break
			}
			p, ok := s.pool.getPool(h)
			if !ok {
				bad = "host " + ip + " has no pool although no connect to it ever failed"
				break
			}
			p.mu.RLock()
			n := len(p.conns)
			dead := 0
			for _, cn := range p.conns {
				if cn.Closed() {
					dead++
				}
			}
			filling := p.filling
			p.mu.RUnlock()
			if n != c.NumConns || dead > 0 {
				bad = fmt.Sprintf("pool of %s: %d connections of which %d are closed (filling=%v), want %d live ones", ip, n, dead, filling, c.NumConns)
			} else if o := len(w.nodeConns(hi, false)); o < c.NumConns {
				bad = fmt.Sprintf("pool of %s reports %d connections but the node sees only %d live ones", ip, n, o)
			}
		}
		if bad == "" {
			return nil
		}
		if time.Now().After(dl) {
			return &vxC17Timing{fmt.Sprintf("%v after node-side connection kills (queries kept running): %s", vxC17RecoverWD, bad)}
		}
		for i := 0; i < c.Hosts; i++ {
			_ = s.Query("LIST settle" + itoa(qi)).Exec()
			qi++
		}
		time.Sleep(500 * time.Microsecond)
	}
}

// accounted explains every still-open client connection as one that was established into the
// already closed session: it sits in a hostConnPool that is registered in the session's pool map
// although policyConnPool.Close emptied that map (host-up / refresh / control reconnect racing
// Close called addHost afterwards), or it is the control connection stored by a reconnect that
// finished after controlConn.close. Returns "" if some connection is not explained that way.
func (w *vxC17World) accounted(s *Session) string {
	known := map[net.Conn]string{}
	s.pool.mu.RLock()
	for id, p := range s.pool.hostConnPools {
		if w.poolsAtCl[p] {
			// this pool existed when Close began: Close itself failed to close it
			s.pool.mu.RUnlock()
			return ""
		}
		p.mu.RLock()
		for _, cn := range p.conns {
			known[cn.conn] = "pool of " + id + " created after Close"
		}
		closed := p.closed
		p.mu.RUnlock()
		if closed {
			s.pool.mu.RUnlock()
			return ""
		}
	}
	s.pool.mu.RUnlock()
	if s.control != nil {
		if ch := s.control.getConn(); ch != nil && ch.conn != nil && ch.conn != w.ctlAtClose {
			known[ch.conn.conn] = "control connection stored after controlConn.close"
		}
	}
	var parts []string
	w.mu.Lock()
	defer w.mu.Unlock()
	var ids []int
	for id := range w.conns {
		ids = append(ids, id)
	}
	sort.Ints(ids)
	for _, id := range ids {
		sc := w.conns[id]
		if sc.Client.Closed() {
			continue
		}
		why, ok := known[net.Conn(sc.Client)]
		if !ok {
			return ""
		}
		parts = append(parts, fmt.Sprintf("conn#%d to %s: %s, dialled by %s", id, sc.Node.Spec.IP, why, w.dialStack[id]))
	}
	return strings.Join(parts, "; ")
}

// drain is the post-Close oracle: every client connection closed and no driver goroutine left.
func (w *vxC17World) drain(s *Session, pollution map[int]bool, out *vxC17Outcome, class func(string)) error {
	start := time.Now()
	var prev vxC17ParkedSet
	lastSig, stableSince := "", start
	for {
		open, _ := w.openClientConns()
		var left []vxGor
		for _, g := range vxDriverGoroutines() {
			if !pollution[g.ID] {
				left = append(left, g)
			}
		}
		now := time.Now()
		el := now.Sub(start)
		if open == 0 && len(left) == 0 {
			if el > vxC17DrainQuick {
				class("slow-drain")
			}
			return nil
		}
		if s != nil {
			w.unpark(out, &prev)
		}
		sig := strconv.Itoa(open)
		passive := true // only connection readers are left: nothing in the driver can ever close them
		for _, g := range left {
			sig += fmt.Sprintf(" %d:%s", g.ID, g.State)
			if !(g.has(".readHeader") && g.has("(*Conn).serve") && g.State != "running" && g.State != "runnable") {
				passive = false
			}
		}
		if sig != lastSig {
			lastSig, stableSince = sig, now
		}
		stable := now.Sub(stableSince)
		if s != nil && open > 0 && stable > 300*time.Millisecond {
			if acc := w.accounted(s); acc != "" {
				out.lateConns = acc
				w.cleanup(out)
				return nil
			}
		}
		if (el > vxC17DrainQuick && stable > 2*time.Second) || el > vxC17DrainMax {
			ctl := ""
			if s != nil && s.control != nil {
				ctl = fmt.Sprintf(" [controlConn.state=%d reconnecting=%d]", atomic.LoadInt32(&s.control.state), atomic.LoadInt32(&s.control.reconnecting))
			}
			msg := fmt.Sprintf("%v after Close returned (state unchanged for %v): %d client connection(s) still open, %d driver goroutine(s) still alive: %s%s\n%s\n%s", el.Round(time.Millisecond), stable.Round(time.Millisecond), open, len(left), vxGorSummary(left), ctl, w.leaked(), vxC17Dump())
			w.cleanup(out)
			onlyHB := len(left) > 0 && open == 0
			for _, g := range left {
				if !(len(g.Funcs) > 0 && strings.HasSuffix(g.Funcs[0], "(*controlConn).heartBeat") && g.State == "select") {
					onlyHB = false
				}
			}
			if onlyHB && (s == nil || atomic.LoadInt32(&s.control.state) == controlConnStarted) {
				// controlConn.close ran while state was still "starting" (its CAS started->closing failed, no quit
				// was sent); the heartBeat goroutine began afterwards and now loops for ever
				for _, g := range left {
					vxC17Pollution[g.ID] = true
				}
				out.hbLeak = fmt.Sprintf("%d controlConn.heartBeat goroutine(s) alive %v after Close (session creation failed: %v)", len(left), el.Round(time.Millisecond), s == nil)
				return nil
			}
			if passive && len(left) > 0 {
				return errors.New(msg) // final state: no goroutine is left that could close them
			}
			return &vxC17Timing{msg}
		}
		time.Sleep(2 * time.Millisecond)
	}
}

// cleanup tears everything down after a failed case so that the next one starts clean.
func (w *vxC17World) cleanup(out *vxC17Outcome) {
	w.releaseHeld()
	if w.s != nil {
		done := make(chan struct{})
		go func() { defer close(done); w.s.Close() }()
		scratch := &vxC17Outcome{}
		w.supervise(done, 3*time.Second, scratch)
		if w.s.cancel != nil {
			w.s.cancel()
		}
	}
	for _, n := range w.cl.Nodes() {
		for _, sc := range n.Conns() {
			sc.Close()
		}
	}
}

// ---------------------------------------------------------------------------------------------
// generator

func vxC17DrawCase(t *rapid.T, small bool) *vxC17Case {
	c := &vxC17Case{Proto: rapid.SampledFrom([]int{4, 4, 3}).Draw(t, "proto")}
	c.Hosts = rapid.IntRange(1, 4).Draw(t, "hosts")
	c.NumConns = rapid.IntRange(1, 4).Draw(t, "num_conns")
	c.TokenAw = rapid.IntRange(0, 3).Draw(t, "token_aware") == 0
	c.Reconnect = rapid.SampledFrom([]int{0, 0, 20}).Draw(t, "reconnect")
	c.Release = rapid.IntRange(0, 3).Draw(t, "release") != 0
	c.WaitHeld = rapid.Bool().Draw(t, "wait_held")
	c.Post = rapid.IntRange(1, 4).Draw(t, "post")
	c.Keyspace = rapid.IntRange(0, 2).Draw(t, "keyspace") == 0
	c.CloseErr = rapid.IntRange(0, 3).Draw(t, "close_err") == 0
	c.Ready = rapid.IntRange(0, 3).Draw(t, "ready") == 0
	c.Retry0 = rapid.IntRange(0, 11).Draw(t, "retry0") == 0
	if rapid.IntRange(0, 7).Draw(t, "tolimit") == 0 {
		// the limit bites when one connection collects limit+1 timeouts: one connection per host, at most two
		// hosts, held queries that are never answered (added to the first group below)
		c.TOLimit = rapid.IntRange(1, 2).Draw(t, "limit")
		c.NumConns, c.Release = 1, false
		if c.Hosts > 2 {
			c.Hosts = 2
		}
	}
	for hi := 0; hi < c.Hosts; hi++ {
		f := vxC17Fault{}
		if rapid.IntRange(0, 9).Draw(t, "faulty") < 3 {
			f.Kind = rapid.SampledFrom([]string{"refuse", "stall", "hs", "hs", "die", "die"}).Draw(t, "fault")
			base := c.NumConns
			if hi == 0 {
				base++ // the control connection
			}
			// mostly after the initial connections, sometimes among them
			f.From = base + rapid.IntRange(-2, 2).Draw(t, "from")
			if f.From < 0 {
				f.From = 0
			}
			if f.Kind == "stall" && f.From < base {
				f.From = base // keep session creation fast
			}
			f.Step = rapid.IntRange(0, 2).Draw(t, "step")
			f.How = rapid.SampledFrom([]string{"close", "close", "error", "silent"}).Draw(t, "how")
			if f.How == "silent" && f.From < base {
				f.How = "close"
			}
			f.K = rapid.IntRange(1, 6).Draw(t, "k")
			if c.Keyspace && f.Kind == "hs" && rapid.Bool().Draw(t, "use_fails") {
				// the USE that follows the handshake is answered with ERROR
				f.Step, f.How = 2, "error"
			}
		}
		c.Faults = append(c.Faults, f)
	}
	drawAct := func(kinds []string) vxC17Act {
		a := vxC17Act{Kind: rapid.SampledFrom(kinds).Draw(t, "act")}
		a.Host = rapid.IntRange(0, c.Hosts-1).Draw(t, "host")
		a.Spin = rapid.SampledFrom([]int{0, 0, 1, 3, 10, 40, 150}).Draw(t, "spin")
		switch a.Kind {
		case "query":
			a.N = rapid.IntRange(1, 12).Draw(t, "nq")
		case "kill":
			a.N = rapid.IntRange(1, c.NumConns).Draw(t, "nkill")
		case "event":
			a.N = rapid.IntRange(0, 3).Draw(t, "ev")
		case "pause":
			a.N = rapid.SampledFrom([]int{1, 5, 40, 1100}).Draw(t, "ms")
		}
		return a
	}
	pre := []string{"query", "query", "query", "hold", "kill", "kill", "kill", "killctl", "refresh", "down", "up", "remove", "restore", "event", "heal", "pause"}
	ngroups := rapid.IntRange(0, 3).Draw(t, "groups")
	maxActs := 5
	if small {
		ngroups = rapid.IntRange(0, 1).Draw(t, "groups_small")
		maxActs = 4
	}
	if c.TOLimit > 0 && ngroups == 0 {
		ngroups = 1
	}
	for g := 0; g < ngroups; g++ {
		n := rapid.IntRange(1, maxActs).Draw(t, "acts")
		var grp []vxC17Act
		if c.TOLimit > 0 && g == 0 {
			for i, nh := 0, 2*c.Hosts*(c.TOLimit+1); i < nh; i++ {
				grp = append(grp, vxC17Act{Kind: "hold", Spin: i % 3})
			}
		}
		for i := 0; i < n; i++ {
			a := drawAct(pre)
			if a.Kind == "pause" && a.N > 100 && rapid.IntRange(0, 3).Draw(t, "longpause") != 0 {
				a.N = 5
			}
			grp = append(grp, a)
		}
		c.Groups = append(c.Groups, grp)
	}
	// the Close group
	var grp []vxC17Act
	n := rapid.IntRange(0, maxActs).Draw(t, "close_acts")
	with := []string{"query", "query", "hold", "hold", "kill", "kill", "killctl", "killctl", "refresh", "refresh", "down", "up", "remove", "restore", "event"}
	for i := 0; i < n; i++ {
		grp = append(grp, drawAct(with))
	}
	switch rapid.IntRange(0, 3).Draw(t, "close_mode") {
	case 0:
		grp = append(grp, vxC17Act{Kind: "close", Spin: rapid.SampledFrom([]int{0, 1, 5, 20, 80, 300}).Draw(t, "cspin")})
	case 1:
		grp = append(grp, vxC17Act{Kind: "close2", Spin: rapid.SampledFrom([]int{0, 1, 5, 20, 80, 300}).Draw(t, "cspin")})
	case 2:
		grp = append(grp, vxC17Act{Kind: "close", Spin: rapid.SampledFrom([]int{0, 1, 5, 20, 80}).Draw(t, "cspin")},
			vxC17Act{Kind: "close", Spin: rapid.SampledFrom([]int{0, 1, 5, 20, 80}).Draw(t, "cspin2")})
	default:
		grp = append(grp, vxC17Act{Kind: "close2", Spin: rapid.SampledFrom([]int{0, 1, 5, 20, 80}).Draw(t, "cspin")},
			vxC17Act{Kind: "close", Spin: rapid.SampledFrom([]int{0, 1, 5, 20, 80}).Draw(t, "cspin2")})
	}
	c.Groups = append(c.Groups, grp)
	// after Close: only queries
	if rapid.Bool().Draw(t, "post_group") {
		var pg []vxC17Act
		for i, n := 0, rapid.IntRange(1, 3).Draw(t, "post_acts"); i < n; i++ {
			pg = append(pg, vxC17Act{Kind: "query", N: rapid.IntRange(1, 4).Draw(t, "pq")})
		}
		c.Groups = append(c.Groups, pg)
	}
	return c
}

// vxC17Sanitize makes a replayed / shrunk case lie inside the domain (nothing but queries after Close).
func vxC17Sanitize(c *vxC17Case) {
	seenClose := false
	for gi := range c.Groups {
		if seenClose {
			var g []vxC17Act
			for _, a := range c.Groups[gi] {
				if a.Kind == "query" {
					g = append(g, a)
				}
			}
			c.Groups[gi] = g
			continue
		}
		for _, a := range c.Groups[gi] {
			if a.Kind == "close" || a.Kind == "close2" {
				seenClose = true
			}
		}
	}
}

func vxC17Eval(ci interface{}, k *vstats.Case) error {
	c := ci.(*vxC17Case)
	vxC17Sanitize(c)
	faults := 0
	for _, f := range c.Faults {
		if f.Kind != "" {
			faults++
			k.Class("fault=" + f.Kind)
		}
	}
	k.Class(fmt.Sprintf("hosts=%d", c.Hosts))
	k.Class(fmt.Sprintf("numconns=%d", c.NumConns))
	if c.TOLimit > 0 {
		k.Class("timeout-limit-set")
	}
	if c.Keyspace {
		k.Class("keyspace-set")
		for _, f := range c.Faults {
			if f.Kind == "hs" && f.Step == 2 {
				k.Class("use-fails-" + f.How)
			}
		}
	}
	for _, g := range c.Groups {
		isClose := false
		for _, a := range g {
			if a.Kind == "close" || a.Kind == "close2" {
				isClose = true
			}
		}
		for _, a := range g {
			if isClose && a.Kind != "close" && a.Kind != "close2" {
				k.Class("close||" + a.Kind)
			}
		}
	}
	err := vxC17Run(c, k)
	if te, ok := err.(*vxC17Timing); ok {
		if os.Getenv("VX_C17_DEBUG") != "" {
			cj, _ := json.Marshal(c)
			fmt.Fprintf(os.Stderr, "VXC17 watchdog (first run): case %s\n%s\n", cj, te.msg)
		}
		// judged by a watchdog: the same case must fail the same way once more
		err2 := vxC17Run(c, nil)
		if _, again := err2.(*vxC17Timing); again {
			return fmt.Errorf("%s\n[confirmed by a second run of the same case: %s]", te.msg, strings.SplitN(err2.Error(), "\n", 2)[0])
		}
		k.Class("unconfirmed-watchdog")
		if err2 != nil {
			return err2
		}
		return nil
	}
	return err
}

const vxC17Rule = "a real Session on 1-4 scripted hosts, NumConns 1-4, per-host faults (refuse / stall dial, fail handshake at step j by close|error|silence, die after k requests), then groups of concurrent actors from a pre-drawn plan (queries, held queries, node-side kills of several pool connections at once, control-connection kill, refreshRing, handleNodeDown/Up, host removal/restoration through the ring, events), one group containing Close (once, twice, from two goroutines), then queries after Close; non-trivial = the Close group contains at least one other actor; distinct by the whole plan"

func TestVxC17Session(t *testing.T) {
	vx.Check(t, vx.Prop{ID: "C17", Part: "TestVxC17Session", Rule: vxC17Rule,
		Draw: func(t *rapid.T) interface{} { return vxC17DrawCase(t, false) },
		New:  func() interface{} { return &vxC17Case{} },
		Run:  vxC17Eval})
}

// TestVxC17Race runs the same scenario in a binary built with -race; bin/check turns a race
// report into a violation.
func TestVxC17Race(t *testing.T) {
	vx.Check(t, vx.Prop{ID: "C17", Part: "TestVxC17Race", Rule: vxC17Rule + " (small plans, race detector on)",
		Draw: func(t *rapid.T) interface{} { return vxC17DrawCase(t, true) },
		New:  func() interface{} { return &vxC17Case{} },
		Run:  vxC17Eval})
}

// =============================================================================================
// Fill storm: many fill requests for one not-full pool arriving together.
//
// hostConnPool.fill is called by the driver from any number of goroutines at once (every Pick on a
// pool that is not full does `go pool.fill()`, every broken connection's HandleError does, addHost
// and the reconnect handler do). The part releases k such requests together (spinning on a shared
// flag, so that they arrive within nanoseconds on different processors) against a pool that has
// just lost some or all of its connections, and checks the bound at every moment and at rest.

type vxC17StormReq struct {
	Kind string `json:"kind"` // fill | pick
	Spin int    `json:"spin"`
}

type vxC17StormRound struct {
	Kill int             `json:"kill"` // pool connections the node closes just before the requests (0..NumConns)
	Reqs []vxC17StormReq `json:"reqs"`
}

type vxC17StormCase struct {
	Proto    int               `json:"proto"`
	NumConns int               `json:"num_conns"`
	DialUs   int               `json:"dial_us"` // the dialer takes this long per connection
	Rounds   []vxC17StormRound `json:"rounds"`
}

type vxC17StormDialer struct {
	cl *vnode.Cluster
	d  time.Duration
}

func (d *vxC17StormDialer) DialContext(ctx context.Context, network, addr string) (net.Conn, error) {
	if d.d > 0 {
		time.Sleep(d.d)
	}
	return d.cl.DialContext(ctx, network, addr)
}

func vxC17RunStorm(c *vxC17StormCase, k *vstats.Case) error {
	if c.NumConns < 1 || c.NumConns > 8 {
		return nil
	}
	cl := vnode.NewCluster(vxSpecs(1, 2))
	node := cl.Nodes()[0]
	cfg := vxClusterConfig(cl, c.Proto, func(cfg *ClusterConfig) {
		cfg.Dialer = &vxC17StormDialer{cl: cl, d: time.Duration(c.DialUs) * time.Microsecond}
		cfg.NumConns = c.NumConns
		cfg.DisableInitialHostLookup = true
	})
	s, err := cfg.CreateSession()
	if err != nil {
		return fmt.Errorf("session against a healthy node: %v", err)
	}
	defer s.Close()
	var pool *hostConnPool
	s.pool.mu.RLock()
	for _, p := range s.pool.hostConnPools {
		pool = p
	}
	s.pool.mu.RUnlock()
	if pool == nil {
		return errors.New("harness: the session has no pool for its only host")
	}
	nc := c.NumConns
	var viol atomic.Value
	check := func(when string) {
		if n := pool.Size(); n > nc && viol.Load() == nil {
			viol.Store(fmt.Sprintf("%s: the pool holds %d connections, NumConns is %d", when, n, nc))
		}
		if o := node.OpenConns(); o > nc+1 && viol.Load() == nil {
			viol.Store(fmt.Sprintf("%s: the node has %d open connections from the driver; NumConns=%d plus one control connection are allowed", when, o, nc))
		}
	}
	rest := func() bool { // wait for the pool to be full and idle
		for dl := time.Now().Add(5 * time.Second); time.Now().Before(dl); {
			pool.mu.RLock()
			full := len(pool.conns) >= nc && !pool.filling
			pool.mu.RUnlock()
			if full {
				return true
			}
			check("while refilling")
			pool.fill() // what the next Pick would trigger
			time.Sleep(200 * time.Microsecond)
		}
		return false
	}
	if !rest() {
		return nil // not a verdict of this part (kill recovery is judged by the Session part)
	}
	check("after session creation")
	maxReq := 0
	for ri, r := range c.Rounds {
		if viol.Load() != nil {
			break
		}
		// the node closes some pool connections
		killed := 0
		pool.mu.RLock()
		victims := append([]*Conn(nil), pool.conns...)
		pool.mu.RUnlock()
		for _, sc := range node.Conns() {
			if killed >= r.Kill {
				break
			}
			for _, v := range victims {
				if vc, ok := v.conn.(*vnode.Conn); ok && sc.Client == vc && !sc.C.Closed() {
					sc.Close()
					killed++
					break
				}
			}
		}
		if killed > 0 {
			// wait until the driver noticed at least one of them (the pool is not full any more)
			for dl := time.Now().Add(2 * time.Second); pool.Size() >= nc && time.Now().Before(dl); {
				runtime.Gosched()
			}
		}
		var flag int32
		var ready, wg sync.WaitGroup
		for _, q := range r.Reqs {
			q := q
			ready.Add(1)
			wg.Add(1)
			go func() {
				defer wg.Done()
				ready.Done()
				for atomic.LoadInt32(&flag) == 0 {
				}
				vxSpin(q.Spin)
				if q.Kind == "pick" {
					pool.Pick()
				} else {
					pool.fill()
				}
			}()
		}
		if len(r.Reqs) > maxReq {
			maxReq = len(r.Reqs)
		}
		ready.Wait()
		atomic.StoreInt32(&flag, 1)
		done := make(chan struct{})
		go func() { wg.Wait(); close(done) }()
	wait:
		for {
			select {
			case <-done:
				break wait
			default:
				check("round " + itoa(ri) + ", requests running")
				time.Sleep(50 * time.Microsecond)
			}
		}
		if !rest() {
			k.Class("storm-not-refilled")
			break
		}
		// fillers that lost the race may still be connecting: give them the time of a few dials
		for i := 0; i < 20; i++ {
			check("round " + itoa(ri) + ", at rest")
			time.Sleep(time.Duration(c.DialUs)*time.Microsecond/4 + 100*time.Microsecond)
		}
		if killed > 0 && len(r.Reqs) >= 2 {
			k.NonTrivial()
		}
	}
	k.Class(fmt.Sprintf("storm-numconns=%d", nc))
	k.Class(fmt.Sprintf("storm-maxreq=%d", maxReq))
	if v := viol.Load(); v != nil {
		return errors.New(v.(string))
	}
	return nil
}

const vxC17StormRule = "a real Session on one scripted host (NumConns 1-4, dial taking 0-2 ms); per round the node closes 0..NumConns pool connections and 1-12 fill requests (hostConnPool.fill, as HandleError / addHost issue it, or hostConnPool.Pick, which issues it on a not-full pool) are released together from spinning goroutines; pool.Size() <= NumConns and node-side open connections <= NumConns+1 are sampled every 50 us while they run and 20 times at rest; non-trivial = a round with a kill and at least two simultaneous requests; distinct by the whole plan"

func TestVxC17FillStorm(t *testing.T) {
	if runtime.GOMAXPROCS(0) < 4 {
		runtime.GOMAXPROCS(4)
	}
	vx.Check(t, vx.Prop{ID: "C17", Part: "TestVxC17FillStorm", Rule: vxC17StormRule,
		Draw: func(t *rapid.T) interface{} {
			c := &vxC17StormCase{Proto: rapid.SampledFrom([]int{4, 3}).Draw(t, "proto")}
			c.NumConns = rapid.IntRange(1, 4).Draw(t, "num_conns")
			c.DialUs = rapid.SampledFrom([]int{0, 100, 500, 2000}).Draw(t, "dial_us")
			for i, n := 0, rapid.IntRange(1, 4).Draw(t, "rounds"); i < n; i++ {
				r := vxC17StormRound{Kill: rapid.IntRange(0, c.NumConns).Draw(t, "kill")}
				if rapid.Bool().Draw(t, "kill_all") {
					r.Kill = c.NumConns
				}
				for j, m := 0, rapid.IntRange(1, 12).Draw(t, "reqs"); j < m; j++ {
					r.Reqs = append(r.Reqs, vxC17StormReq{
						Kind: rapid.SampledFrom([]string{"fill", "fill", "pick"}).Draw(t, "req"),
						Spin: rapid.SampledFrom([]int{0, 0, 0, 1, 3}).Draw(t, "spin")})
				}
				c.Rounds = append(c.Rounds, r)
			}
			return c
		},
		New: func() interface{} { return &vxC17StormCase{} },
		Run: func(ci interface{}, k *vstats.Case) error { return vxC17RunStorm(ci.(*vxC17StormCase), k) }})
}
