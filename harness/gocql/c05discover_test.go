//go:build verif && go1.21

// C05, protocol discovery: ClusterConfig.ProtoVersion == 0 makes the driver open a probing connection
// with version 4 and derive the version to use from the text of the server's ERROR message
// (control.go parseProtocolFromError) or from the version stamped on an unexpected frame. Whatever the
// server answers there, session creation must return (a session or an error) and nothing may panic.
package gocql

import (
	"fmt"
	"testing"
	"time"

	"pgregory.net/rapid"
	"verif.local/cqlspec"
	"verif.local/vnode"
	"verif.local/vstats"
	"verif.local/vx"
)

type vxC05DiscCase struct {
	Mode     string            `json:"mode"`     // proto-error | other-error | other-frame | close | accept
	Greatest string            `json:"greatest"` // proto-error: the digits after "the greatest is "
	Lowest   string            `json:"lowest"`
	Suffix   string            `json:"suffix"` // text after the sentence (the pattern is anchored at the end)
	Resp     *cqlspec.Response `json:"resp,omitempty"`
	Stamp    int               `json:"stamp"` // other-frame: protocol version stamped on the frame
	Serve    int               `json:"serve"` // version the node is willing to speak afterwards (1..5)
}

func TestVxC05Discover(t *testing.T) {
	vx.Check(t, vx.Prop{ID: "C05", Part: "TestVxC05Discover",
		Rule: "a session created with ProtoVersion 0 (discovery): the node answers the version-4 probe with a protocol ERROR on stream 0 (header stamped with a drawn version) whose message names a drawn greatest supported version (1..5, 0, 6, 9, 127, 128, 255, 256, 20 digits, negative, empty; optionally followed by more text), with another ERROR, with a well-formed frame of a drawn kind stamped with a drawn version, by closing, or normally; afterwards it speaks the named version if that is 1..5; oracle: CreateSession returns within the watchdog, with a working session when the named version is 1..5 and the message is the one Cassandra sends, and nothing panics; non-trivial = the probe is not simply accepted; distinct by the case",
		Draw: func(t *rapid.T) interface{} {
			c := &vxC05DiscCase{Mode: rapid.SampledFrom([]string{"proto-error", "proto-error", "proto-error", "other-error", "other-frame", "close", "accept"}).Draw(t, "mode")}
			c.Greatest = rapid.SampledFrom([]string{"1", "2", "3", "4", "5", "0", "6", "9", "127", "128", "255", "256", "99999999999999999999", "-3", ""}).Draw(t, "greatest")
			c.Lowest = rapid.SampledFrom([]string{"1", "3", "0", "77"}).Draw(t, "lowest")
			c.Suffix = rapid.SampledFrom([]string{"", "", "", " (beta)", "\n"}).Draw(t, "suffix")
			c.Stamp = rapid.SampledFrom([]int{1, 2, 3, 4, 5, 6, 0, 127}).Draw(t, "stamp")
			c.Serve = rapid.IntRange(1, 5).Draw(t, "serve")
			if c.Mode == "other-frame" || c.Mode == "other-error" {
				for try := 0; try < 50; try++ {
					r := vxDrawResponse(t)
					if (c.Mode == "other-error") == (r.Kind == "ERROR") && r.Kind != "EVENT" {
						c.Resp = r
						break
					}
				}
				if c.Resp == nil {
					c.Resp = &cqlspec.Response{Kind: "ERROR", Code: cqlspec.ErrServer, Message: "x"}
				}
			}
			return c
		},
		New: func() interface{} { return &vxC05DiscCase{} },
		Run: func(ci interface{}, k *vstats.Case) error {
			c := ci.(*vxC05DiscCase)
			if c.Serve < 1 || c.Serve > 5 {
				return nil
			}
			k.Class("mode=" + c.Mode)
			if c.Mode != "accept" {
				k.NonTrivial()
			}
			serve := c.Serve
			named := 0
			if c.Mode == "proto-error" && c.Suffix == "" && c.Stamp >= 1 && c.Stamp <= 5 && len(c.Greatest) == 1 && c.Greatest[0] >= '1' && c.Greatest[0] <= '5' {
				named = int(c.Greatest[0] - '0')
				serve = named
			}
			if c.Mode == "accept" {
				serve = 4
			}
			cl := vnode.NewCluster(vxSpecs(1, 1))
			node := cl.Nodes()[0]
			node.Handler = vxBasicHandler
			probed := false
			node.Intercept = func(rc *vnode.ReqCtx) bool {
				if rc.Conn.ID != 1 || probed || c.Mode == "accept" {
					// every later connection: refuse versions the node does not "speak"
					if rc.Req.Header.Version != serve && !rc.Conn.Started && rc.Req.Kind != "OPTIONS" {
						r := &cqlspec.Response{Kind: "ERROR", Code: cqlspec.ErrProtocol, Message: fmt.Sprintf("Invalid or unsupported protocol version (%d)", rc.Req.Header.Version)}
						rc.Reply(r)
						rc.Conn.Close()
						return true
					}
					return false
				}
				probed = true
				switch c.Mode {
				case "proto-error":
					// as Cassandra does: on stream 0 (it did not parse the frame), stamped with a version of its own
					r := &cqlspec.Response{Kind: "ERROR", Code: cqlspec.ErrProtocol, Stream: 0, Version: c.Stamp,
						Message: fmt.Sprintf("Invalid or unsupported protocol version (4); the lowest supported version is %s and the greatest is %s%s", c.Lowest, c.Greatest, c.Suffix)}
					if r.Version < 1 || r.Version > 5 {
						r.Version = 4 // a version-4 frame whose first byte names a version that does not exist
					}
					if b, err := r.Frame(nil); err == nil && len(b) > 0 {
						b[0] = 0x80 | byte(c.Stamp&0x7f)
						rc.Conn.SendRaw(b)
					}
					rc.Conn.Close()
				case "close":
					rc.Conn.Close()
				default:
					r := *c.Resp
					r.Stream = rc.Req.Header.Stream
					r.Compress = false
					r.Version = 4
					if c.Mode == "other-frame" {
						r.Version = c.Stamp
					}
					if r.Version < 4 {
						r.Warnings, r.HasPayload, r.Payload = nil, false, nil
					}
					bv := r.Version
					if bv < 1 || bv > 5 {
						r.Version = 4 // encode the body as version 4, stamp the header afterwards
					}
					b, err := r.Frame(nil)
					if err == nil && len(b) > 0 {
						b[0] = 0x80 | byte(bv&0x7f)
						rc.Conn.SendRaw(b)
					}
					rc.Conn.Close()
				}
				return true
			}
			type res struct {
				s   *Session
				err error
				q   error
			}
			done := make(chan res, 1)
			go func() {
				cfg := vxClusterConfig(cl, 4, func(cfg *ClusterConfig) {
					cfg.ConnectTimeout = 700 * time.Millisecond
					cfg.Timeout = 700 * time.Millisecond
				})
				cfg.ProtoVersion = 0
				s, err := cfg.CreateSession()
				r := res{s: s, err: err}
				if s != nil {
					r.q = s.Query("LIST x").Exec()
					s.Close()
				}
				done <- r
			}()
			select {
			case r := <-done:
				if r.err != nil {
					k.Class("create-session:error")
				} else {
					k.Class("create-session:ok")
				}
				if named > 0 && (r.err != nil || r.q != nil) {
					return fmt.Errorf("the node answered the probe with Cassandra's message naming version %d as its greatest and then spoke version %d: CreateSession = %v, query = %v", named, named, r.err, r.q)
				}
				if c.Mode == "accept" && (r.err != nil || r.q != nil) {
					return fmt.Errorf("the node accepted the version-4 probe: CreateSession = %v, query = %v", r.err, r.q)
				}
				return nil
			case <-time.After(25 * time.Second):
				return fmt.Errorf("CreateSession with protocol discovery did not return within 25 s (mode %s, greatest %q):\n%s", c.Mode, c.Greatest, vxGoroutineDump())
			}
		}})
}

// ---- C05: partition-key indexes of a PREPARED response that do not fit its bind columns -------------

type vxC05PKCase struct {
	Proto int   `json:"proto"` // 4..5
	NCols int   `json:"ncols"` // bind columns the PREPARED response declares
	NVals int   `json:"nvals"` // values the caller binds
	PK    []int `json:"pk"`    // partition-key indexes (may point outside the columns)
	NoMeta bool `json:"no_meta,omitempty"` // the bind metadata carries the no-metadata flag: a column count and no column specifications
}

func TestVxC05PKIndexes(t *testing.T) {
	vx.Check(t, vx.Prop{ID: "C05", Part: "TestVxC05PKIndexes",
		Rule: "a protocol 2..5 session with a token-aware policy prepares a statement; the node's PREPARED response declares 0..4 bind columns (a quarter of the cases: with the no-metadata flag, i.e. a count without column specifications) and 0..4 partition-key indexes (protocol 4+) drawn from in range, equal to the column count, 255, 32767 and 65535 (duplicates allowed); the caller binds 0..5 values and calls GetRoutingKey and Exec; oracle: both return (a value or an error) within the watchdog, nothing panics; non-trivial = an index outside the declared columns; distinct by the case",
		Draw: func(t *rapid.T) interface{} {
			c := &vxC05PKCase{Proto: rapid.SampledFrom([]int{2, 3, 4, 4, 5, 5}).Draw(t, "proto"), NCols: rapid.IntRange(0, 4).Draw(t, "ncols"), NVals: rapid.IntRange(0, 5).Draw(t, "nvals"),
				NoMeta: rapid.IntRange(0, 3).Draw(t, "nometa") == 0}
			for i, n := 0, rapid.IntRange(0, 4).Draw(t, "npk"); i < n; i++ {
				c.PK = append(c.PK, rapid.SampledFrom([]int{0, 1, 2, 3, c.NCols, c.NCols + 1, 255, 32767, 65535}).Draw(t, "pk"))
			}
			if rapid.Bool().Draw(t, "same") {
				c.NVals = c.NCols
			}
			return c
		},
		New: func() interface{} { return &vxC05PKCase{} },
		Run: func(ci interface{}, k *vstats.Case) error {
			c := ci.(*vxC05PKCase)
			if c.Proto < 2 || c.Proto > 5 || c.NCols < 0 || c.NCols > 8 || c.NVals < 0 || c.NVals > 8 || len(c.PK) > 8 {
				return nil
			}
			outside := false
			for _, p := range c.PK {
				if p < 0 || p > 65535 {
					return nil
				}
				outside = outside || p >= c.NCols
			}
			if outside {
				k.NonTrivial()
				k.Class("index outside the columns")
			}
			if c.NoMeta {
				k.NonTrivial()
				k.Class("bind metadata with the no-metadata flag")
			}
			cols := []cqlspec.Column{}
			for i := 0; i < c.NCols; i++ {
				cols = append(cols, cqlspec.Column{Keyspace: "ks1", Table: "t", Name: "c" + itoa(i), Type: cqlspec.Scalar(cqlspec.Int)})
			}
			cl := vnode.NewCluster(vxSpecs(2, 2))
			for _, n := range cl.Nodes() {
				n.Handler = func(rc *vnode.ReqCtx) {
					if rc.Req.Kind == "PREPARE" {
						rc.Reply(&cqlspec.Response{Kind: "PREPARED", PreparedIDHex: "ab", Meta: &cqlspec.Metadata{Columns: cols, PKIndexes: c.PK, GlobalSpec: true, Keyspace: "ks1", Table: "t", NoMetadata: c.NoMeta},
							ResultMeta: &cqlspec.Metadata{Columns: []cqlspec.Column{}}})
						return
					}
					rc.Reply(vxVoid())
				}
			}
			done := make(chan string, 1)
			go func() {
				defer func() {
					if r := recover(); r != nil {
						done <- fmt.Sprintf("panic in the caller's goroutine: %v", r)
					}
				}()
				s, err := vxClusterConfig(cl, c.Proto, func(cfg *ClusterConfig) {
					cfg.PoolConfig.HostSelectionPolicy = TokenAwareHostPolicy(RoundRobinHostPolicy())
					cfg.Timeout = 700 * time.Millisecond
				}).CreateSession()
				if err != nil {
					done <- ""
					return
				}
				defer s.Close()
				vals := make([]interface{}, c.NVals)
				for i := range vals {
					vals[i] = i + 1
				}
				q := s.Query("SELECT a FROM t WHERE k = ?", vals...)
				_, e1 := q.GetRoutingKey()
				e2 := q.Exec()
				k.Class(fmt.Sprintf("GetRoutingKey:%v Exec:%v", e1 == nil, e2 == nil))
				done <- ""
			}()
			select {
			case msg := <-done:
				if msg != "" {
					return fmt.Errorf("PREPARED with %d bind columns and partition-key indexes %v, %d values bound: %s", c.NCols, c.PK, c.NVals, msg)
				}
				return nil
			case <-time.After(20 * time.Second):
				return fmt.Errorf("the calls did not return within 20 s:\n%s", vxGoroutineDump())
			}
		}})
}
