//go:build verif && go1.21

// C09 (parts 2-4) - partition tokens equal the ones Cassandra computes.
//
//	TestVxC09PartitionerHash : murmur3 / random / ordered partitioner Hash vs verif.local/cqlspec
//	TestVxC09TokenOrder      : ParseString is order-isomorphic to Cassandra's token order, String round trip
//	TestVxC09RoutingKey      : createRoutingKey / Query.GetRoutingKey / Batch.GetRoutingKey vs the composite layout
//
// White-box: partitioner types, routingKeyInfo, createRoutingKey and the session's routing-key
// cache are unexported.  No network: GetRoutingKey is reached by seeding the session's
// routingKeyInfo cache, exactly the state a successful PREPARE leaves behind.
package gocql

import (
	"bytes"
	"encoding/binary"
	"encoding/hex"
	"fmt"
	"math"
	"math/big"
	"net"
	"strconv"
	"strings"
	"testing"
	"time"
	"unicode"

	"github.com/gocql/gocql/internal/lru"
	"gopkg.in/inf.v0"
	"pgregory.net/rapid"
	"verif.local/cqlspec"
	"verif.local/vstats"
	"verif.local/vx"
)

// ---------------------------------------------------------------------------------------
// part: partitioner Hash

type vxC09HashCase struct {
	Key  string `json:"key"` // hex, never empty (Cassandra rejects empty partition keys)
	Mode string `json:"mode"`
}

var vxC09Extremes = []uint64{1 << 63, 1<<63 - 1, 1<<63 + 1, 0, 1, ^uint64(0), 1 << 62}

func vxC09Bits(t *rapid.T, n int, label string) int {
	v := 0
	for i := 0; i < n; i++ {
		v <<= 1
		if rapid.Bool().Draw(t, label) {
			v |= 1
		}
	}
	return v
}

func vxC09DrawKeyBytes(t *rapid.T) ([]byte, string) {
	mode := rapid.IntRange(0, 19).Draw(t, "mode")
	if mode == 19 {
		h1 := rapid.SampledFrom(vxC09Extremes).Draw(t, "h1")
		return cqlspec.Murmur3Preimage16(h1, rapid.Uint64().Draw(t, "h2")), "preimage"
	}
	// rapid's integer ranges favour small values; four fair bits give every tail length the same weight
	blocks := vxC09Bits(t, 3, "blocks") % 6
	tail := vxC09Bits(t, 4, "tail")
	if blocks == 0 && tail == 0 {
		tail = 1 + rapid.IntRange(0, 14).Draw(t, "tail1")
	}
	b := make([]byte, blocks*16+tail)
	var name string
	switch {
	case mode < 9:
		name = "high"
		for i := range b {
			b[i] = byte(rapid.IntRange(0x80, 0xff).Draw(t, "b"))
		}
	case mode < 13:
		name = "uniform"
		for i := range b {
			b[i] = rapid.Byte().Draw(t, "b")
		}
	case mode < 15:
		name = "boundary"
		for i := range b {
			b[i] = rapid.SampledFrom([]byte{0x00, 0x7f, 0x80, 0xff, 0x01, 0xfe}).Draw(t, "b")
		}
	case mode < 17:
		name = "single"
		fill := rapid.SampledFrom([]byte{0x00, 0x01, 0x7f}).Draw(t, "fill")
		for i := range b {
			b[i] = fill
		}
		b[rapid.IntRange(0, len(b)-1).Draw(t, "pos")] = byte(rapid.IntRange(0x80, 0xff).Draw(t, "hb"))
	default:
		name = "ascii"
		for i := range b {
			b[i] = byte(rapid.IntRange(0x20, 0x7e).Draw(t, "b"))
		}
	}
	return b, name
}

func TestVxC09PartitionerHash(t *testing.T) {
	vx.Check(t, vx.Prop{ID: "C09", Part: "TestVxC09PartitionerHash",
		Rule: "non-empty key = (0..5 full 16-byte blocks) x (tail 0..15, every tail length equally likely); bytes all >=0x80 (45%), uniform, boundary values, constant fill with one high byte, ASCII; 5% one-block keys solved for an extreme murmur3 h1 (Long.MIN_VALUE, MAX_VALUE, 0, -1, ...). Each key is hashed by all three partitioners. Non-trivial = length >= 16 with a non-empty tail containing a byte >= 0x80, or a solved extreme-token key; distinct by key bytes. Empty keys are excluded (Cassandra rejects them and gives them the partitioner's minimum token)",
		Draw: func(t *rapid.T) interface{} {
			b, mode := vxC09DrawKeyBytes(t)
			return &vxC09HashCase{Key: hex.EncodeToString(b), Mode: mode}
		},
		New: func() interface{} { return &vxC09HashCase{} },
		Run: func(ci interface{}, k *vstats.Case) error {
			c := ci.(*vxC09HashCase)
			key, err := hex.DecodeString(c.Key)
			if err != nil || len(key) == 0 {
				k.Excluded("empty-key")
				return nil
			}
			n := len(key)
			high := false
			for _, x := range key[n/16*16:] {
				high = high || x >= 0x80
			}
			k.Class("mode=" + c.Mode)
			k.Class(fmt.Sprintf("blocks=%d", n/16))
			k.Class(fmt.Sprintf("tail=%d", n%16))
			if (n >= 16 && n%16 != 0 && high) || c.Mode == "preimage" {
				k.NonTrivial()
			}
			orig := append([]byte{}, key...)

			// Murmur3Partitioner.getToken
			raw := cqlspec.Murmur3RawH1(key)
			want := cqlspec.Murmur3Token(key)
			switch {
			case raw == math.MinInt64:
				k.Class("murmur3=Long.MIN_VALUE")
			case raw == math.MaxInt64:
				k.Class("murmur3=Long.MAX_VALUE")
			case raw < 0:
				k.Class("murmur3<0")
			default:
				k.Class("murmur3>=0")
			}
			var mp partitioner = murmur3Partitioner{}
			mt, ok := mp.Hash(key).(murmur3Token)
			if !ok {
				return fmt.Errorf("murmur3Partitioner.Hash returned %T", mp.Hash(key))
			}
			var deferred error
			if int64(mt) != want {
				if raw == math.MinInt64 && int64(mt) == math.MinInt64 {
					deferred = vx.Known("C09-murmur3-min-token", "murmur3Partitioner.Hash(%s) = %d (Long.MIN_VALUE); Cassandra's Murmur3Partitioner.getToken normalises that hash to Long.MAX_VALUE = %d", c.Key, int64(mt), want)
				} else {
					return fmt.Errorf("murmur3Partitioner.Hash(%s) = %d, Cassandra's Murmur3Partitioner token = %d", c.Key, int64(mt), want)
				}
			}
			if s := mt.String(); s != strconv.FormatInt(int64(mt), 10) {
				return fmt.Errorf("murmur3Token(%d).String() = %q", int64(mt), s)
			}
			if back := mp.ParseString(mt.String()); back.Less(mt) || mt.Less(back) {
				return fmt.Errorf("murmur3: ParseString(Hash(%s).String()) = %v differs from the token %v", c.Key, back, mt)
			}

			// RandomPartitioner.getToken
			var rp partitioner = randomPartitioner{}
			rt, ok := rp.Hash(key).(*randomToken)
			if !ok {
				return fmt.Errorf("randomPartitioner.Hash returned %T", rp.Hash(key))
			}
			rwant := cqlspec.RandomToken(key)
			if (*big.Int)(rt).Cmp(rwant) != 0 {
				return fmt.Errorf("randomPartitioner.Hash(%s) = %s, Cassandra's RandomPartitioner token (abs of the signed MD5) = %s", c.Key, (*big.Int)(rt).String(), rwant.String())
			}
			if rt.String() != rwant.String() {
				return fmt.Errorf("randomToken.String() = %q, want %q", rt.String(), rwant.String())
			}
			if back := rp.ParseString(rt.String()); back.Less(rt) || rt.Less(back) {
				return fmt.Errorf("random: ParseString(Hash(%s).String()) = %v differs from the token %v", c.Key, back, rt)
			}
			if rwant.BitLen() > 126 {
				k.Class("md5-abs>=2^126")
			}

			// order-preserving partitioner: the key bytes are the token
			var op partitioner = orderedPartitioner{}
			if s := op.Hash(key).String(); s != string(orig) {
				return fmt.Errorf("orderedPartitioner.Hash(%s) = %x, want the key bytes themselves", c.Key, s)
			}
			if !bytes.Equal(key, orig) {
				return fmt.Errorf("a partitioner modified the key %s -> %x", c.Key, key)
			}
			return deferred
		}})
}

// ---------------------------------------------------------------------------------------
// part: token order

type vxC09OrdCase struct {
	P string `json:"p"` // murmur3 | random | ordered
	A string `json:"a"` // decimal token string (murmur3, random) or hex key bytes (ordered)
	B string `json:"b"`
}

var vxC09Two127 = new(big.Int).Lsh(big.NewInt(1), 127)

// an integer with a drawn bit length (rapid's own integers are biased to small magnitudes)
func vxC09DrawMag(t *rapid.T, maxBits int, label string) *big.Int {
	bits := rapid.IntRange(0, maxBits).Draw(t, label+"_bits")
	v := new(big.Int)
	if bits == 0 {
		return v
	}
	v.SetBit(v, bits-1, 1)
	for i := 0; i < bits-1; i += 32 {
		w := new(big.Int).SetUint64(uint64(rapid.Uint32().Draw(t, label+"_w")))
		v.Xor(v, w.Lsh(w, uint(i)))
	}
	// the xor may have touched bits >= bits-1: mask and set the top bit again
	mask := new(big.Int).Lsh(big.NewInt(1), uint(bits))
	v.Mod(v, mask)
	v.SetBit(v, bits-1, 1)
	return v
}

func vxC09DrawToken(t *rapid.T, p, label string) *big.Int {
	if p == "murmur3" {
		if rapid.IntRange(0, 7).Draw(t, label+"_x") == 0 {
			return new(big.Int).Set(rapid.SampledFrom([]*big.Int{
				big.NewInt(math.MinInt64), big.NewInt(math.MinInt64 + 1), big.NewInt(math.MaxInt64),
				big.NewInt(math.MaxInt64 - 1), big.NewInt(0), big.NewInt(-1), big.NewInt(1)}).Draw(t, label+"_e"))
		}
		v := vxC09DrawMag(t, 63, label)
		if rapid.Bool().Draw(t, label+"_neg") {
			v.Neg(v)
		}
		return v
	}
	if rapid.IntRange(0, 7).Draw(t, label+"_x") == 0 {
		return new(big.Int).Set(rapid.SampledFrom([]*big.Int{
			big.NewInt(0), big.NewInt(1), vxC09Two127, new(big.Int).Sub(vxC09Two127, big.NewInt(1)),
			new(big.Int).Lsh(big.NewInt(1), 64), new(big.Int).Lsh(big.NewInt(1), 63),
			new(big.Int).SetUint64(math.MaxUint64)}).Draw(t, label+"_e"))
	}
	return vxC09DrawMag(t, 127, label) // < 2^127
}

func vxC09InRange(p string, v *big.Int) bool {
	if p == "murmur3" {
		return v.IsInt64()
	}
	return v.Sign() >= 0 && v.Cmp(vxC09Two127) <= 0
}

func vxC09DrawOrd(t *rapid.T) *vxC09OrdCase {
	c := &vxC09OrdCase{P: rapid.SampledFrom([]string{"murmur3", "murmur3", "random", "random", "ordered"}).Draw(t, "p")}
	rel := rapid.IntRange(0, 5).Draw(t, "rel")
	if c.P == "ordered" {
		bg := rapid.OneOf(rapid.Just(byte(0)), rapid.Just(byte(0x7f)), rapid.Just(byte(0x80)), rapid.Just(byte(0xff)), rapid.Byte(),
			rapid.Custom(func(t *rapid.T) byte { return byte(rapid.IntRange(0x80, 0xff).Draw(t, "hb")) }))
		a := rapid.SliceOfN(bg, 0, 12).Draw(t, "a")
		var b []byte
		switch rel {
		case 0, 1:
			b = rapid.SliceOfN(bg, 0, 12).Draw(t, "b")
		case 2: // a is a proper prefix of b
			b = append(append([]byte{}, a...), rapid.SliceOfN(bg, 1, 4).Draw(t, "suffix")...)
		case 3: // differ in exactly one byte
			b = append([]byte{}, a...)
			if len(b) > 0 {
				b[rapid.IntRange(0, len(b)-1).Draw(t, "pos")] = bg.Draw(t, "nb")
			}
		case 4: // b is a prefix of a
			b = append([]byte{}, a[:rapid.IntRange(0, len(a)).Draw(t, "cut")]...)
		default:
			b = append([]byte{}, a...)
		}
		if rapid.Bool().Draw(t, "swap") {
			a, b = b, a
		}
		c.A, c.B = hex.EncodeToString(a), hex.EncodeToString(b)
		return c
	}
	a := vxC09DrawToken(t, c.P, "a")
	var b *big.Int
	switch rel {
	case 0, 1:
		b = vxC09DrawToken(t, c.P, "b")
	case 2, 3: // neighbours
		d := int64(rapid.IntRange(1, 1000).Draw(t, "delta"))
		if rel == 3 {
			d = -d
		}
		b = new(big.Int).Add(a, big.NewInt(d))
		if !vxC09InRange(c.P, b) {
			b = new(big.Int).Sub(a, big.NewInt(d))
		}
	case 4: // same digits, other sign / same length other leading digits
		if c.P == "murmur3" && a.Cmp(big.NewInt(math.MinInt64)) != 0 {
			b = new(big.Int).Neg(a)
		} else {
			b = new(big.Int).Rsh(a, uint(rapid.IntRange(1, 8).Draw(t, "sh")))
		}
	default:
		b = new(big.Int).Set(a)
	}
	c.A, c.B = a.String(), b.String()
	return c
}

func TestVxC09TokenOrder(t *testing.T) {
	vx.Check(t, vx.Prop{ID: "C09", Part: "TestVxC09TokenOrder",
		Rule: "a pair of tokens of one partitioner: murmur3 = canonical decimal strings over [-2^63, 2^63-1], random = canonical decimal strings over [0, 2^127], both with a drawn bit length (all magnitudes) and the extremes; ordered = byte strings of 0..12 bytes biased to 0x00/0x7f/0x80/0xff; the second is independent, a neighbour (+-1..1000), the negation / a shifted copy, a prefix / extension / one-byte change, or equal. Non-trivial = the two differ; distinct by (partitioner, a, b)",
		Draw: func(t *rapid.T) interface{} { return vxC09DrawOrd(t) },
		New:  func() interface{} { return &vxC09OrdCase{} },
		Run: func(ci interface{}, k *vstats.Case) error {
			c := ci.(*vxC09OrdCase)
			var p partitioner
			var cmp int
			sa, sb := c.A, c.B
			switch c.P {
			case "murmur3", "random":
				p = murmur3Partitioner{}
				if c.P == "random" {
					p = randomPartitioner{}
				}
				a, ok1 := new(big.Int).SetString(c.A, 10)
				b, ok2 := new(big.Int).SetString(c.B, 10)
				if !ok1 || !ok2 || !vxC09InRange(c.P, a) || !vxC09InRange(c.P, b) || a.String() != c.A || b.String() != c.B {
					k.Excluded("not-a-canonical-in-range-token-string")
					return nil
				}
				cmp = a.Cmp(b)
				k.Class(fmt.Sprintf("%s:signs=%d/%d", c.P, a.Sign(), b.Sign()))
				if len(c.A) != len(c.B) {
					k.Class(c.P + ":different-string-length")
				}
				if d := new(big.Int).Sub(a, b); d.IsInt64() && d.Int64() != 0 && d.Int64() > -1001 && d.Int64() < 1001 {
					k.Class(c.P + ":neighbours")
				}
				if (c.P == "murmur3" && (c.A == "-9223372036854775808" || c.A == "9223372036854775807" || c.B == "-9223372036854775808" || c.B == "9223372036854775807")) ||
					(c.P == "random" && (a.Cmp(vxC09Two127) == 0 || b.Cmp(vxC09Two127) == 0 || (a.Sign() == 0) != (b.Sign() == 0))) {
					k.Class(c.P + ":extreme")
				}
			case "ordered":
				p = orderedPartitioner{}
				a, e1 := hex.DecodeString(c.A)
				b, e2 := hex.DecodeString(c.B)
				if e1 != nil || e2 != nil {
					return nil
				}
				sa, sb = string(a), string(b)
				cmp = bytes.Compare(a, b) // unsigned byte-wise, shorter prefix first: ByteOrderedPartitioner's order
				if cmp != 0 && (bytes.HasPrefix(a, b) || bytes.HasPrefix(b, a)) {
					k.Class("ordered:prefix")
				}
				// the token of a key is the key
				if ha, hb := p.Hash(a), p.Hash(b); ha.Less(hb) != (cmp < 0) || hb.Less(ha) != (cmp > 0) {
					return fmt.Errorf("ordered: Hash(%s).Less(Hash(%s)) = %v and the reverse = %v, but comparing the keys as unsigned bytes gives %d", c.A, c.B, ha.Less(hb), hb.Less(ha), cmp)
				}
			default:
				return nil
			}
			k.Class(fmt.Sprintf("%s:cmp=%d", c.P, cmp))
			if cmp != 0 {
				k.NonTrivial()
			}
			ta, tb := p.ParseString(sa), p.ParseString(sb)
			if ta.String() != sa || tb.String() != sb {
				return fmt.Errorf("%s: ParseString(%q).String() = %q, ParseString(%q).String() = %q: no round trip", c.P, sa, ta.String(), sb, tb.String())
			}
			if ta.Less(tb) != (cmp < 0) || tb.Less(ta) != (cmp > 0) {
				return fmt.Errorf("%s: ParseString(%q).Less(ParseString(%q)) = %v and the reverse = %v, but Cassandra orders them %d", c.P, sa, sb, ta.Less(tb), tb.Less(ta), cmp)
			}
			if ta.Less(ta) || tb.Less(tb) {
				return fmt.Errorf("%s: a token is Less than itself (%q / %q)", c.P, sa, sb)
			}
			return nil
		}})
}

// ---------------------------------------------------------------------------------------
// part: routing key

type vxC09Comp struct {
	T   string `json:"t"`             // CQL type
	V   string `json:"v"`             // value, textual (see vxC09Value)
	Rep int    `json:"rep,omitempty"` // text/blob: the bytes of V repeated Rep times (long components)
	Alt bool   `json:"alt,omitempty"` // use the second Go carrier of the type
}

type vxC09RKCase struct {
	Proto int         `json:"proto"`
	Comps []vxC09Comp `json:"comps"` // in partition-key order
	NVals int         `json:"nvals"` // number of bound values of the statement
	Idx   []int       `json:"idx"`   // Idx[i] = position of component i among the bound values
	// session part only: ClusterConfig.MaxRoutingKeyInfo (0: default) and when another statement with another key
	// layout asks for its routing key (bit 0: before the first call, bit 1: between the first call and the re-bind)
	Cache int `json:"cache,omitempty"`
	Decoy int `json:"decoy,omitempty"`
}

var vxC09Types = []string{"int", "bigint", "smallint", "tinyint", "text", "varchar", "ascii", "blob", "boolean",
	"uuid", "timeuuid", "timestamp", "double", "float", "inet", "time", "varint", "decimal", "date", "list<int>"}

// vxC09Value turns a component into (type, Go value as an application would bind it,
// the serialised form written down from the CQL spec or nil when only Marshal is the reference).
func vxC09Value(c vxC09Comp, proto byte) (TypeInfo, interface{}, []byte, error) {
	nt := func(t Type) TypeInfo { return NewNativeType(proto, t, "") }
	be := func(v uint64, n int) []byte {
		b := make([]byte, 8)
		binary.BigEndian.PutUint64(b, v)
		return b[8-n:]
	}
	rawBytes := func() ([]byte, error) {
		b, err := hex.DecodeString(c.V)
		if err != nil {
			return nil, err
		}
		if c.Rep > 1 {
			b = bytes.Repeat(b, c.Rep)
		}
		return b, nil
	}
	switch c.T {
	case "int", "bigint", "smallint", "tinyint", "timestamp", "time":
		v, err := strconv.ParseInt(c.V, 10, 64)
		if err != nil {
			return nil, nil, nil, err
		}
		switch c.T {
		case "int":
			if v != int64(int32(v)) {
				return nil, nil, nil, fmt.Errorf("out of range")
			}
			if c.Alt {
				return nt(TypeInt), int(v), be(uint64(v), 4), nil
			}
			return nt(TypeInt), int32(v), be(uint64(v), 4), nil
		case "bigint":
			return nt(TypeBigInt), v, be(uint64(v), 8), nil
		case "smallint":
			if v != int64(int16(v)) {
				return nil, nil, nil, fmt.Errorf("out of range")
			}
			return nt(TypeSmallInt), int16(v), be(uint64(v), 2), nil
		case "tinyint":
			if v != int64(int8(v)) {
				return nil, nil, nil, fmt.Errorf("out of range")
			}
			return nt(TypeTinyInt), int8(v), be(uint64(v), 1), nil
		case "timestamp": // milliseconds since the epoch
			if v > 1<<55 || v < -(1<<55) {
				return nil, nil, nil, fmt.Errorf("out of range")
			}
			if tm := time.UnixMilli(v).UTC(); c.Alt && !tm.IsZero() {
				return nt(TypeTimestamp), tm, be(uint64(v), 8), nil
			}
			return nt(TypeTimestamp), v, be(uint64(v), 8), nil
		default: // time: nanoseconds since midnight
			if v < 0 || v >= 86400e9 {
				return nil, nil, nil, fmt.Errorf("out of range")
			}
			if c.Alt {
				return nt(TypeTime), v, be(uint64(v), 8), nil
			}
			return nt(TypeTime), time.Duration(v), be(uint64(v), 8), nil
		}
	case "text", "varchar", "ascii", "blob":
		b, err := rawBytes()
		if err != nil {
			return nil, nil, nil, err
		}
		typ := map[string]Type{"text": TypeText, "varchar": TypeVarchar, "ascii": TypeAscii, "blob": TypeBlob}[c.T]
		if (c.T == "blob") != c.Alt { // blob: []byte, alt string; text: string, alt []byte
			return nt(typ), b, b, nil
		}
		return nt(typ), string(b), b, nil
	case "boolean":
		if c.V == "true" {
			return nt(TypeBoolean), true, []byte{1}, nil
		}
		return nt(TypeBoolean), false, []byte{0}, nil
	case "uuid", "timeuuid":
		b, err := hex.DecodeString(c.V)
		if err != nil || len(b) != 16 {
			return nil, nil, nil, fmt.Errorf("bad uuid")
		}
		typ := TypeUUID
		if c.T == "timeuuid" {
			typ = TypeTimeUUID
		}
		var u UUID
		copy(u[:], b)
		if c.Alt {
			return nt(typ), u.String(), b, nil
		}
		return nt(typ), u, b, nil
	case "double":
		bits, err := strconv.ParseUint(c.V, 16, 64)
		if err != nil {
			return nil, nil, nil, err
		}
		return nt(TypeDouble), math.Float64frombits(bits), be(bits, 8), nil
	case "float":
		bits, err := strconv.ParseUint(c.V, 16, 32)
		if err != nil {
			return nil, nil, nil, err
		}
		return nt(TypeFloat), math.Float32frombits(uint32(bits)), be(bits, 4), nil
	case "inet":
		b, err := hex.DecodeString(c.V)
		if err != nil || (len(b) != 4 && len(b) != 16) {
			return nil, nil, nil, fmt.Errorf("bad inet")
		}
		if len(b) == 16 && net.IP(b).To4() != nil {
			return nil, nil, nil, fmt.Errorf("v4-mapped address: its serialised form is the 4-byte one")
		}
		return nt(TypeInet), net.IP(b), b, nil
	case "varint":
		v, ok := new(big.Int).SetString(c.V, 10)
		if !ok {
			return nil, nil, nil, fmt.Errorf("bad varint")
		}
		if c.Alt && v.IsInt64() {
			return nt(TypeVarint), v.Int64(), nil, nil
		}
		return nt(TypeVarint), v, nil, nil
	case "decimal":
		parts := strings.SplitN(c.V, "/", 2)
		if len(parts) != 2 {
			return nil, nil, nil, fmt.Errorf("bad decimal")
		}
		u, ok := new(big.Int).SetString(parts[0], 10)
		sc, err := strconv.ParseInt(parts[1], 10, 32)
		if !ok || err != nil {
			return nil, nil, nil, fmt.Errorf("bad decimal")
		}
		return nt(TypeDecimal), inf.NewDecBig(u, inf.Scale(sc)), nil, nil
	case "date": // days since the epoch, 1970-01-01 onwards, as midnight UTC
		d, err := strconv.ParseInt(c.V, 10, 64)
		if err != nil || d < 0 || d > 100000 {
			return nil, nil, nil, fmt.Errorf("bad date")
		}
		if c.Alt {
			return nt(TypeDate), time.Unix(d*86400, 0).UTC().Format("2006-01-02"), be(uint64(d)+1<<31, 4), nil
		}
		return nt(TypeDate), time.Unix(d*86400, 0).UTC(), be(uint64(d)+1<<31, 4), nil
	case "list<int>":
		var l []int32
		var spec []byte
		for _, s := range strings.Split(c.V, ",") {
			if s == "" {
				continue
			}
			v, err := strconv.ParseInt(s, 10, 32)
			if err != nil {
				return nil, nil, nil, err
			}
			l = append(l, int32(v))
			spec = append(append(spec, 0, 0, 0, 4), be(uint64(v), 4)...)
		}
		if l == nil {
			l = []int32{}
		}
		spec = append(be(uint64(len(l)), 4), spec...) // protocol v3+: int count, int-prefixed elements
		return CollectionType{NativeType: NewNativeType(proto, TypeList, ""), Elem: nt(TypeInt)}, l, spec, nil
	}
	return nil, nil, nil, fmt.Errorf("unknown type %q", c.T)
}

func vxC09DrawComp(t *rapid.T, single bool) vxC09Comp {
	c := vxC09Comp{T: rapid.SampledFrom(vxC09Types).Draw(t, "type"), Alt: rapid.Bool().Draw(t, "alt")}
	signed := func(bits int) string {
		v := vxC09DrawMag(t, bits, "n")
		if rapid.Bool().Draw(t, "neg") {
			v.Neg(v)
			if rapid.IntRange(0, 7).Draw(t, "min") == 0 {
				v = new(big.Int).Neg(new(big.Int).Lsh(big.NewInt(1), uint(bits)))
			}
		}
		return v.String()
	}
	drawBytes := func(min, max int, lo, hi int) []byte {
		n := rapid.IntRange(min, max).Draw(t, "len")
		b := make([]byte, n)
		for i := range b {
			b[i] = byte(rapid.IntRange(lo, hi).Draw(t, "b"))
		}
		return b
	}
	min := 0
	if single {
		min = 1
	}
	switch c.T {
	case "int":
		c.V = signed(31)
	case "bigint":
		c.V = signed(63)
	case "smallint":
		c.V = signed(15)
	case "tinyint":
		c.V = signed(7)
	case "timestamp":
		c.V = signed(50)
	case "time":
		c.V = strconv.FormatInt(rapid.Int64Range(0, 86400e9-1).Draw(t, "ns"), 10)
	case "text", "varchar":
		s := rapid.StringOfN(rapid.RuneFrom(nil, vxC09Runes), min, 12, -1).Draw(t, "s")
		c.V = hex.EncodeToString([]byte(s))
	case "ascii":
		c.V = hex.EncodeToString(drawBytes(min, 12, 0x20, 0x7e))
	case "blob":
		c.V = hex.EncodeToString(drawBytes(min, 12, 0, 0xff))
	case "boolean":
		c.V = strconv.FormatBool(rapid.Bool().Draw(t, "bool"))
	case "uuid", "timeuuid":
		c.V = hex.EncodeToString(drawBytes(16, 16, 0, 0xff))
	case "double":
		bits := rapid.Uint64().Draw(t, "bits")
		if bits>>52&0x7ff == 0x7ff {
			bits &^= 1 << 52 // keep it finite
		}
		c.V = strconv.FormatUint(bits, 16)
	case "float":
		bits := rapid.Uint32().Draw(t, "bits")
		if bits>>23&0xff == 0xff {
			bits &^= 1 << 23
		}
		c.V = strconv.FormatUint(uint64(bits), 16)
	case "inet":
		if rapid.Bool().Draw(t, "v6") {
			b := drawBytes(16, 16, 0, 0xff)
			b[0] |= 0x20 // never a v4-mapped address
			c.V = hex.EncodeToString(b)
		} else {
			c.V = hex.EncodeToString(drawBytes(4, 4, 0, 0xff))
		}
	case "varint":
		c.V = signed(rapid.SampledFrom([]int{7, 8, 15, 16, 63, 64, 100}).Draw(t, "vbits"))
	case "decimal":
		c.V = signed(rapid.SampledFrom([]int{7, 31, 63, 90}).Draw(t, "dbits")) + "/" + strconv.Itoa(rapid.IntRange(-20, 20).Draw(t, "scale"))
	case "date":
		c.V = strconv.Itoa(rapid.IntRange(0, 40000).Draw(t, "days"))
	case "list<int>":
		n := rapid.IntRange(min, 3).Draw(t, "n")
		var parts []string
		for i := 0; i < n; i++ {
			parts = append(parts, signed(31))
		}
		c.V = strings.Join(parts, ",")
	}
	// long components: the length prefix has two bytes
	if (c.T == "text" || c.T == "blob" || c.T == "ascii") && len(c.V) > 0 && rapid.IntRange(0, 5).Draw(t, "long") == 0 {
		unit := len(c.V) / 2
		target := rapid.SampledFrom([]int{255, 256, 257, 300, 511, 512, 1000, 4096, 20000}).Draw(t, "target")
		c.Rep = (target + unit - 1) / unit
	}
	return c
}

// runes for text keys: ASCII, Latin-1, Greek, CJK, an astral plane (1..4-byte UTF-8)
var vxC09Runes = &unicode.RangeTable{
	R16:         []unicode.Range16{{Lo: 0x20, Hi: 0x7e, Stride: 1}, {Lo: 0xa1, Hi: 0xff, Stride: 1}, {Lo: 0x391, Hi: 0x3c9, Stride: 1}, {Lo: 0x4e00, Hi: 0x4e40, Stride: 1}},
	R32:         []unicode.Range32{{Lo: 0x1f600, Hi: 0x1f640, Stride: 1}},
	LatinOffset: 2,
}

func vxC09DrawRK(t *rapid.T) *vxC09RKCase {
	n := rapid.SampledFrom([]int{1, 2, 2, 3, 3, 4, 5}).Draw(t, "ncomp")
	c := &vxC09RKCase{Proto: rapid.SampledFrom([]int{3, 4, 4, 5}).Draw(t, "proto")}
	for i := 0; i < n; i++ {
		c.Comps = append(c.Comps, vxC09DrawComp(t, n == 1))
	}
	// make a swap of two components visible more often: same type, different values is the
	// hardest case for a wrong order to hide in, so sometimes force all types equal
	if n >= 2 && rapid.IntRange(0, 3).Draw(t, "sametype") == 0 {
		for i := 1; i < n; i++ {
			if c.Comps[i].T != c.Comps[0].T {
				c.Comps[i] = vxC09Comp{T: "bigint", V: strconv.Itoa(i)}
			}
		}
		if c.Comps[0].T != c.Comps[n-1].T {
			c.Comps[0] = vxC09Comp{T: "bigint", V: "0"}
		}
	}
	c.NVals = n + rapid.IntRange(0, 3).Draw(t, "extra")
	pos := make([]int, c.NVals)
	for i := range pos {
		pos[i] = i
	}
	if rapid.IntRange(0, 4).Draw(t, "inorder") != 0 {
		pos = rapid.Permutation(pos).Draw(t, "perm")
	}
	c.Idx = pos[:n]
	return c
}

func TestVxC09RoutingKey(t *testing.T) {
	vx.Check(t, vx.Prop{ID: "C09", Part: "TestVxC09RoutingKey",
		Rule: "a statement with 1..8 bound values of which 1..5 are the partition-key components (20 key-capable CQL types: all fixed-width natives, text/ascii/varchar/blob incl. components of 255..20000 bytes, uuid/timeuuid, inet v4/v6, varint, decimal, date, time, timestamp, frozen list<int>; two Go carriers per type where the driver documents two), values of every magnitude, never null, total key < 64 KiB; the positions of the key components among the bound values are a drawn injection (80% not in partition-key order), the other positions hold values that cannot be marshalled into a key type. Non-trivial = at least 2 components whose serialised forms are not all equal; distinct by the whole case",
		Draw: func(t *rapid.T) interface{} { return vxC09DrawRK(t) },
		New:  func() interface{} { return &vxC09RKCase{} },
		Run: func(ci interface{}, k *vstats.Case) error {
			c := ci.(*vxC09RKCase)
			n := len(c.Comps)
			if n < 1 || n > 8 || len(c.Idx) != n || c.NVals < n || c.NVals > 16 || c.Proto < 3 || c.Proto > 5 {
				return nil
			}
			type filler struct{ pos int } // not marshallable into any key type: picking a wrong position shows
			values := make([]interface{}, c.NVals)
			for i := range values {
				values[i] = filler{i}
			}
			info := &routingKeyInfo{indexes: append([]int{}, c.Idx...), types: make([]TypeInfo, n), keyspace: "vxks", table: "vxtbl"}
			seen := map[int]bool{}
			var viaMarshal, viaSpec [][]byte
			haveSpec := true
			total := 0
			ascending := true
			for i, comp := range c.Comps {
				if c.Idx[i] < 0 || c.Idx[i] >= c.NVals || seen[c.Idx[i]] {
					return nil
				}
				seen[c.Idx[i]] = true
				if i > 0 && c.Idx[i] < c.Idx[i-1] {
					ascending = false
				}
				ti, v, spec, err := vxC09Value(comp, byte(c.Proto))
				if err != nil {
					k.Excluded("malformed-component")
					return nil
				}
				info.types[i] = ti
				values[c.Idx[i]] = v
				enc, err := Marshal(ti, v)
				if err != nil {
					return fmt.Errorf("component %d (%s %q): Marshal failed: %v", i, comp.T, comp.V, err)
				}
				if spec != nil && !bytes.Equal(spec, enc) {
					return fmt.Errorf("component %d (%s %q as %T): Marshal = %x, the CQL serialisation is %x", i, comp.T, comp.V, v, enc, spec)
				}
				if spec == nil {
					haveSpec = false
				}
				if n == 1 && len(enc) == 0 {
					k.Excluded("empty-single-key")
					return nil
				}
				viaMarshal = append(viaMarshal, enc)
				viaSpec = append(viaSpec, spec)
				total += len(enc) + 3
				k.Class("type=" + comp.T)
				if len(enc) > 255 {
					k.Class("component>255-bytes")
				}
				if len(enc) == 0 {
					k.Class("empty-component")
				}
			}
			if total > 65535 {
				k.Excluded("key-longer-than-64KiB")
				return nil
			}
			k.Class(fmt.Sprintf("components=%d", n))
			k.Class(fmt.Sprintf("extra-values=%d", c.NVals-n))
			if ascending {
				k.Class("bind-order=pk-order")
			} else {
				k.Class("bind-order!=pk-order")
			}
			if n >= 2 {
				for _, e := range viaMarshal[1:] {
					if !bytes.Equal(e, viaMarshal[0]) {
						k.NonTrivial()
						break
					}
				}
			}
			want := cqlspec.RoutingKey(viaMarshal)
			if haveSpec {
				k.Class("all-components-have-spec-encoding")
				if w2 := cqlspec.RoutingKey(viaSpec); !bytes.Equal(w2, want) {
					return fmt.Errorf("harness: spec and Marshal references disagree")
				}
			}
			describe := func() string {
				var sb strings.Builder
				for i, comp := range c.Comps {
					fmt.Fprintf(&sb, " [%d: %s = %x bound at ?%d]", i, comp.T, viaMarshal[i], c.Idx[i])
				}
				return sb.String()
			}
			vcopy := append([]interface{}{}, values...)

			got, err := createRoutingKey(info, vcopy)
			if err != nil {
				return fmt.Errorf("createRoutingKey failed: %v;%s", err, describe())
			}
			if !bytes.Equal(got, want) {
				return fmt.Errorf("createRoutingKey = %x, Cassandra's partition key is %x;%s", got, want, describe())
			}

			// Query.GetRoutingKey / Batch.GetRoutingKey with the routing-key info a PREPARE would have cached
			const stmt = "INSERT INTO vxks.vxtbl (cols) VALUES (?s)"
			s := &Session{}
			s.routingKeyInfoCache.lru = lru.New(4)
			s.routingKeyInfoCache.lru.Add(stmt, &inflightCachedEntry{value: info})
			q := s.Query(stmt, append([]interface{}{}, values...)...)
			qk, err := q.GetRoutingKey()
			if err != nil {
				return fmt.Errorf("Query.GetRoutingKey failed: %v;%s", err, describe())
			}
			if !bytes.Equal(qk, want) {
				return fmt.Errorf("Query.GetRoutingKey = %x, Cassandra's partition key is %x;%s", qk, want, describe())
			}
			b := s.NewBatch(LoggedBatch)
			b.Query(stmt, append([]interface{}{}, values...)...)
			b.Query("UPDATE other SET x = ? WHERE k = ?", 1, 2)
			bk, err := b.GetRoutingKey()
			if err != nil {
				return fmt.Errorf("Batch.GetRoutingKey failed: %v;%s", err, describe())
			}
			if !bytes.Equal(bk, want) {
				return fmt.Errorf("Batch.GetRoutingKey = %x, Cassandra's partition key of the first statement is %x;%s", bk, want, describe())
			}

			// keys are values: the keys handed out so far stay what they were when further keys are built
			// (applications keep them, the token-aware policy hashes them later)
			other := &routingKeyInfo{indexes: []int{1, 0}, types: []TypeInfo{NativeType{typ: TypeInt, proto: byte(c.Proto)}, NativeType{typ: TypeVarchar, proto: byte(c.Proto)}}}
			for round := 0; round < 3; round++ {
				ok, err := createRoutingKey(other, []interface{}{"a-rather-long-text-component-of-another-partition-key", 0x7a7a7a70 + round})
				wantOther := cqlspec.RoutingKey([][]byte{{0x7a, 0x7a, 0x7a, byte(0x70 + round)}, []byte("a-rather-long-text-component-of-another-partition-key")})
				if err != nil || !bytes.Equal(ok, wantOther) {
					return fmt.Errorf("createRoutingKey of another key = %x, %v; want %x", ok, err, wantOther)
				}
				for name, key := range map[string][]byte{"createRoutingKey": got, "Query.GetRoutingKey": qk, "Batch.GetRoutingKey": bk} {
					if !bytes.Equal(key, want) {
						return fmt.Errorf("the key %s returned earlier has become %x after %d other key(s) were built; it was %x;%s", name, key, round+1, want, describe())
					}
				}
			}

			// and the token of that key, end to end
			if tok := (murmur3Partitioner{}).Hash(got); tok != murmur3Token(cqlspec.Murmur3Token(want)) && cqlspec.Murmur3RawH1(want) != math.MinInt64 {
				return fmt.Errorf("murmur3 token of the routing key %x = %v, Cassandra's = %d", got, tok, cqlspec.Murmur3Token(want))
			}
			return nil
		}})
}
