//go:build verif && go1.21

package gocql

// C16, control-connection loss and reconnection: the control connection is lost while no node accepts new
// connections (the pool connections stay up), one or two reconnect attempts fail for every candidate, then the
// nodes accept connections again. The driver's own heartbeat (every 5 s, every second after a failure) must bring the control connection back, and
// the ring must follow the cluster again afterwards.

import (
	"fmt"
	"net"
	"sync/atomic"
	"testing"
	"time"

	"pgregory.net/rapid"
	"verif.local/vnode"
	"verif.local/vstats"
	"verif.local/vx"
)

type vxC16OutCase struct {
	Proto   int  `json:"proto"`
	N       int  `json:"n"`
	Fails   int  `json:"fails"`   // reconnect attempts that find nobody before the nodes accept connections again
	Partial bool `json:"partial"` // one node other than the control node keeps accepting: the first attempt succeeds
}

func vxC16Dials(cl *vnode.Cluster) int {
	n := 0
	for _, nd := range cl.Nodes() {
		n += cl.Dials(nd.Spec.Key())
	}
	return n
}

// vxC16DialsSettle waits until at least one more dial than `from` was made and no further one for 60 ms.
func vxC16DialsSettle(cl *vnode.Cluster, from int, max time.Duration) int {
	deadline := time.Now().Add(max)
	last, since := vxC16Dials(cl), time.Now()
	for time.Now().Before(deadline) {
		time.Sleep(2 * time.Millisecond)
		if d := vxC16Dials(cl); d != last {
			last, since = d, time.Now()
		} else if last > from && time.Since(since) > 60*time.Millisecond {
			break
		}
	}
	return last
}

func vxRunC16Outage(c *vxC16OutCase, k *vstats.Case) error {
	if c.Proto < 1 || c.Proto > 5 || c.N < 1 || c.N > 4 || c.Fails < 1 || c.Fails > 2 {
		return nil
	}
	specs := vxSpecs(c.N+1, 1)
	cl := vnode.NewCluster(specs[:c.N])
	s, err := vxClusterConfig(cl, c.Proto, func(cfg *ClusterConfig) {
		cfg.PoolConfig.HostSelectionPolicy = RoundRobinHostPolicy()
	}).CreateSession()
	if err != nil {
		return fmt.Errorf("harness: CreateSession: %v", err)
	}
	defer s.Close()
	old := s.control.getConn()
	if old == nil {
		return fmt.Errorf("harness: no control connection after CreateSession")
	}
	var ctlNode *vnode.Node
	var ctlSide *vnode.ServerConn
	for _, nd := range cl.Nodes() {
		for _, sc := range nd.Conns() {
			if net.Conn(sc.Client) == old.conn.conn {
				ctlNode, ctlSide = nd, sc
			}
		}
	}
	if ctlSide == nil {
		return fmt.Errorf("harness: cannot find the node side of the control connection")
	}
	partial := c.Partial && c.N >= 2
	spared := false
	for _, nd := range cl.Nodes() {
		if partial && !spared && nd != ctlNode {
			spared = true
			continue
		}
		nd.SetRefuse("refuse")
	}
	d0 := vxC16Dials(cl)
	ctlSide.Close()
	if !partial {
		// the first attempt (started by the connection's error) and, for Fails == 2, the heartbeat's next one
		d := vxC16DialsSettle(cl, d0, 4*time.Second)
		if d == d0 {
			return fmt.Errorf("the control connection was closed by its node and the driver made no attempt to reconnect within 4 s")
		}
		if c.Fails == 2 {
			if d2 := vxC16DialsSettle(cl, d, 15*time.Second); d2 == d {
				return fmt.Errorf("after a reconnect attempt that found no node the driver made no further attempt within 15 s (the control heartbeat probes every 5 s, every second after a failure)")
			}
		}
		k.NonTrivial()
		k.Class(fmt.Sprintf("every candidate refused, %d failed attempt(s)", c.Fails))
	} else {
		k.Class("one node kept accepting")
	}
	for _, nd := range cl.Nodes() {
		nd.SetRefuse("")
	}
	dRec := vxC16Dials(cl)
	deadline := time.Now().Add(20 * time.Second)
	var ch *connHost
	for {
		ch = s.control.getConn()
		if ch != nil && ch != old && !ch.conn.Closed() && atomic.LoadInt32(&s.control.reconnecting) == 0 {
			break
		}
		if time.Now().After(deadline) {
			return fmt.Errorf("every node accepts connections again, yet the control connection was not re-established within 20 s (%d dial attempts since; reconnecting flag %d)",
				vxC16Dials(cl)-dRec, atomic.LoadInt32(&s.control.reconnecting))
		}
		time.Sleep(2 * time.Millisecond)
	}
	// and the picture follows the cluster again: a node joins
	cl.AddNode(specs[c.N])
	cl.SetTruth(specs)
	deadline = time.Now().Add(5 * time.Second)
	var rerr error
	for {
		rerr = s.refreshRing()
		if rerr == nil && len(s.ring.allHosts()) == c.N+1 {
			break
		}
		if time.Now().After(deadline) {
			return fmt.Errorf("after the control connection came back a node joined; refreshRing: %v, ring has %d hosts, the cluster reports %d", rerr, len(s.ring.allHosts()), c.N+1)
		}
		time.Sleep(5 * time.Millisecond)
	}
	k.Class(fmt.Sprintf("v%d n=%d", c.Proto, c.N))
	return nil
}

func TestVxC16ControlOutage(t *testing.T) {
	vx.Check(t, vx.Prop{
		ID: "C16", Part: "TestVxC16ControlOutage",
		Rule: "protocol 1..5, 1..4 nodes; the control connection is closed by its node while every node (or every node but one) refuses new connections, the pool connections stay up; 1..2 reconnect attempts find nobody (counted at the dialer), then every node accepts again; oracle: the driver's own heartbeat re-establishes the control connection within 20 s (it probes every 5 s, every second after a failure), and a node that joins afterwards is in the ring after a refresh; non-trivial = every candidate refused at least one whole attempt; distinct by the case",
		Draw: func(t *rapid.T) interface{} {
			return &vxC16OutCase{Proto: rapid.IntRange(1, 5).Draw(t, "proto"), N: rapid.IntRange(1, 4).Draw(t, "n"),
				Fails: rapid.IntRange(1, 2).Draw(t, "fails"), Partial: rapid.IntRange(0, 4).Draw(t, "partial") == 0}
		},
		New: func() interface{} { return &vxC16OutCase{} },
		Run: func(ci interface{}, k *vstats.Case) error {
			return vxRunC16Outage(ci.(*vxC16OutCase), k)
		},
	})
}
