//go:build verif && go1.21

package gocql

// C16 behind address translation: the nodes report private addresses (10.0.0.x:9042) that the client cannot
// reach; ClusterConfig.AddressTranslator maps them to the public ones (10.9.0.x, optionally another port per
// node). Events name the private addresses. The session's picture must still follow the cluster: every member
// connected at its public address, a node reported down not offered, joining nodes connected, leaving nodes
// dropped.

import (
	"fmt"
	"log"
	"net"
	"os"
	"sort"
	"strconv"
	"strings"
	"sync"
	"testing"
	"time"

	"pgregory.net/rapid"
	"verif.local/cqlspec"
	"verif.local/vnode"
	"verif.local/vstats"
	"verif.local/vx"
)

type vxC16TrStep struct {
	Op string `json:"op"` // down up join leave refresh
	I  int    `json:"i"`
}

type vxC16TrCase struct {
	Proto   int           `json:"proto"`
	N       int           `json:"n"`
	PortMap bool          `json:"port_map"` // the translator also maps the port (+ 1000 x)
	Direct  bool          `json:"direct,omitempty"`       // no translation: the reported addresses are the reachable ones
	V4      bool          `json:"v4,omitempty"`           // a Cassandra 4.0 cluster: system.peers_v2 with native_port (UP events wait 10 s for x.0 / x.1 releases: not generated)
	Ports   bool          `json:"own_ports,omitempty"`    // V4 only: every node but the first listens on a port of its own (9042 + 100 x), reported as native_port
	Policy  int           `json:"policy"`   // 0 round robin, 1 token aware over round robin
	Steps   []vxC16TrStep `json:"steps"`
}

// public: where the client reaches the node that reports the private address.
func (c *vxC16TrCase) public(private string) (string, int) {
	x, _ := strconv.Atoi(private[strings.LastIndex(private, ".")+1:])
	port := c.listen(x)
	if c.Direct {
		return private, port
	}
	if c.PortMap {
		port += 1000 * x
	}
	return "10.9.0." + strconv.Itoa(x), port
}

// listen: the port node x (1-based, as in its address) listens on and reports.
func (c *vxC16TrCase) listen(x int) int {
	if c.V4 && c.Ports && x > 1 {
		return 9042 + 100*x
	}
	return 9042
}

func vxRunC16Translated(c *vxC16TrCase, k *vstats.Case) error {
	if c.Proto < 1 || c.Proto > 5 || c.N < 1 || c.N > 4 || len(c.Steps) > 8 {
		return nil
	}
	const spare = 3
	specs := vxSpecs(c.N+spare, 2)
	for i := range specs {
		specs[i].Port = c.listen(i + 1)
		if c.V4 {
			specs[i].Version = "4.0.11"
		}
	}
	cl := vnode.NewCluster(specs[:c.N])
	cl.PeersV2 = c.V4
	var mu sync.Mutex
	served := map[string]int{}
	handler := func(ip string) func(rc *vnode.ReqCtx) {
		return func(rc *vnode.ReqCtx) {
			if rc.Req.Kind == "QUERY" && rc.Req.Statement == "LIST who" {
				mu.Lock()
				served[ip]++
				mu.Unlock()
			}
			rc.Reply(&cqlspec.Response{Kind: "VOID"})
		}
	}
	alias := func(sp vnode.HostSpec) {
		if c.Direct {
			return
		}
		ip, port := c.public(sp.IP)
		cl.SetAlias(net.JoinHostPort(ip, strconv.Itoa(port)), sp.Key(), true)
	}
	for i, n := range cl.Nodes() {
		n.Handler = handler(specs[i].IP)
		alias(specs[i])
	}
	members := map[int]bool{} // index into specs
	up := map[int]bool{}
	for i := 0; i < c.N; i++ {
		members[i], up[i] = true, true
	}
	truth := func() {
		var t []vnode.HostSpec
		for i := range specs {
			if members[i] {
				t = append(t, specs[i])
			}
		}
		cl.SetTruth(t)
	}
	truth()
	pubIP, pubPort := c.public(specs[0].IP)
	cl.Proto = c.Proto
	cfg := NewCluster(net.JoinHostPort(pubIP, strconv.Itoa(pubPort)))
	cfg.ProtoVersion = c.Proto
	cfg.Dialer = cl
	cfg.Timeout, cfg.ConnectTimeout = 3*time.Second, 3*time.Second
	cfg.NumConns = 1
	cfg.Consistency = One
	cfg.Logger = vxQuietLogger
	if os.Getenv("VX_DEBUG") != "" {
		cfg.Logger = log.New(os.Stderr, "drv ", log.Lmicroseconds)
	}
	cfg.ReconnectInterval = 0
	cfg.ReconnectionPolicy = &ConstantReconnectionPolicy{MaxRetries: 1, Interval: 5 * time.Millisecond}
	if !c.Direct {
		cfg.AddressTranslator = AddressTranslatorFunc(func(addr net.IP, port int) (net.IP, int) {
			if v4 := addr.To4(); v4 != nil && v4[0] == 10 && v4[1] == 0 && v4[2] == 0 {
				if c.PortMap {
					port += 1000 * int(v4[3])
				}
				return net.IPv4(10, 9, 0, v4[3]), port
			}
			return addr, port
		})
	}
	if c.Policy == 1 {
		cfg.PoolConfig.HostSelectionPolicy = TokenAwareHostPolicy(RoundRobinHostPolicy())
	} else {
		cfg.PoolConfig.HostSelectionPolicy = RoundRobinHostPolicy()
	}
	s, err := cfg.CreateSession()
	if err != nil {
		return fmt.Errorf("CreateSession behind address translation (contact point %s:%d): %v", pubIP, pubPort, err)
	}
	defer s.Close()

	// check: poll until the driver's picture equals the model (or the watchdog expires)
	check := func(what string) error {
		deadline := time.Now().Add(10 * time.Second)
		var last string
		for {
			last = ""
			hosts := s.ring.allHosts()
			byID := map[string]*HostInfo{}
			for _, h := range hosts {
				byID[strings.ReplaceAll(h.HostID(), "-", "")] = h
			}
			n := 0
			for i := range specs {
				h := byID[specs[i].HostID]
				if !members[i] {
					if h != nil {
						last = fmt.Sprintf("host %s left the cluster and is still in the ring", specs[i].IP)
					}
					continue
				}
				n++
				if h == nil {
					last = fmt.Sprintf("host %s is a member and is not in the ring", specs[i].IP)
					continue
				}
				ip, port := c.public(specs[i].IP)
				if h.ConnectAddress().String() != ip || h.Port() != port {
					last = fmt.Sprintf("host %s is reachable at %s:%d, the ring has it at %s:%d", specs[i].IP, ip, port, h.ConnectAddress(), h.Port())
					continue
				}
				if byIP, ok := s.ring.getHostByIP(specs[i].IP); !ok || byIP != h {
					last = fmt.Sprintf("lookup by the node's own address %s gives %v, by id %v", specs[i].IP, byIP, h)
					continue
				}
				pool, hasPool := s.pool.getPool(h)
				open := 0
				if hasPool {
					open = pool.Size()
				}
				if up[i] && (!h.IsUp() || open == 0) {
					last = fmt.Sprintf("host %s is up: IsUp=%v, %d pool connections", specs[i].IP, h.IsUp(), open)
				}
				if !up[i] && (h.IsUp() || open != 0) {
					last = fmt.Sprintf("host %s was reported down: IsUp=%v, %d pool connections", specs[i].IP, h.IsUp(), open)
				}
			}
			if len(hosts) != n && last == "" {
				last = fmt.Sprintf("ring has %d hosts, the cluster reports %d", len(hosts), n)
			}
			if last == "" {
				break
			}
			if time.Now().After(deadline) {
				return fmt.Errorf("%s: after 10 s %s", what, last)
			}
			time.Sleep(2 * time.Millisecond)
		}
		// queries reach exactly the members that are up
		mu.Lock()
		served = map[string]int{}
		mu.Unlock()
		nUp := 0
		for i := range specs {
			if members[i] && up[i] {
				nUp++
			}
		}
		for q := 0; q < 3*nUp; q++ {
			if err := s.Query("LIST who").Exec(); err != nil {
				return fmt.Errorf("%s: query failed: %v", what, err)
			}
		}
		if nUp == 0 {
			if err := s.Query("LIST who").Exec(); err == nil {
				return fmt.Errorf("%s: no member is up, yet a query succeeded", what)
			}
		}
		mu.Lock()
		defer mu.Unlock()
		for i := range specs {
			want := members[i] && up[i]
			if got := served[specs[i].IP] > 0; got != want {
				var l []string
				for ip, n := range served {
					l = append(l, fmt.Sprintf("%s:%d", ip, n))
				}
				sort.Strings(l)
				return fmt.Errorf("%s: %d queries were served by %v; host %s (member %v, up %v)", what, 3*nUp, l, specs[i].IP, members[i], up[i])
			}
		}
		return nil
	}
	if err := check("after CreateSession"); err != nil {
		return err
	}
	for _, l := range cl.AllLogs() {
		if l.Req != nil && l.Req.Kind == "QUERY" && strings.Contains(l.Req.Statement, "system.peers_v2") {
			k.Class("system.peers_v2 was read")
			break
		}
	}
	k.Class(fmt.Sprintf("v%d n=%d", c.Proto, c.N))
	k.Class(fmt.Sprintf("direct=%v portmap=%v cassandra4=%v own-ports=%v policy=%d", c.Direct, c.PortMap, c.V4, c.V4 && c.Ports, c.Policy))
	pick := func(i int, pred func(int) bool) int {
		var cands []int
		for j := range specs {
			if pred(j) {
				cands = append(cands, j)
			}
		}
		if len(cands) == 0 {
			return -1
		}
		return cands[i%len(cands)]
	}
	for si, st := range c.Steps {
		what := fmt.Sprintf("step %d (%s)", si, st.Op)
		switch st.Op {
		case "down":
			j := pick(st.I, func(j int) bool { return members[j] && up[j] })
			if j < 0 {
				continue
			}
			what += " " + specs[j].IP
			s.handleNodeEvent([]frame{&statusChangeEventFrame{change: "DOWN", host: net.ParseIP(specs[j].IP).To4(), port: specs[j].Port}})
			up[j] = false
			k.Class("down event naming the private address")
		case "up":
			j := pick(st.I, func(j int) bool { return members[j] && !up[j] })
			if j < 0 || c.V4 {
				continue
			}
			what += " " + specs[j].IP
			s.handleNodeEvent([]frame{&statusChangeEventFrame{change: "UP", host: net.ParseIP(specs[j].IP).To4(), port: specs[j].Port}})
			up[j] = true
			k.Class("up event naming the private address")
		case "join":
			j := pick(st.I, func(j int) bool { return !members[j] && cl.Node(specs[j].IP) == nil })
			if j < 0 {
				continue
			}
			what += " " + specs[j].IP
			cl.AddNode(specs[j]).Handler = handler(specs[j].IP)
			alias(specs[j])
			members[j], up[j] = true, true
			truth()
			if err := s.refreshRing(); err != nil {
				return fmt.Errorf("%s: refreshRing: %v", what, err)
			}
			k.Class("join")
			k.NonTrivial()
		case "leave":
			j := pick(st.I, func(j int) bool { return members[j] && j != 0 })
			if j < 0 {
				continue
			}
			what += " " + specs[j].IP
			members[j], up[j] = false, false
			truth()
			if err := s.refreshRing(); err != nil {
				return fmt.Errorf("%s: refreshRing: %v", what, err)
			}
			k.Class("leave")
			k.NonTrivial()
		case "refresh":
			if err := s.refreshRing(); err != nil {
				return fmt.Errorf("%s: refreshRing: %v", what, err)
			}
		default:
			continue
		}
		if err := check(what); err != nil {
			return err
		}
	}
	return nil
}

func TestVxC16Translated(t *testing.T) {
	vx.Check(t, vx.Prop{
		ID: "C16", Part: "TestVxC16Translated",
		Rule: "protocol 1..5, 1..4 nodes that report private addresses 10.0.0.x the client cannot dial, ClusterConfig.AddressTranslator maps them to 10.9.0.x (optionally port + 1000x), round-robin or token-aware policy; a third of the cases: a Cassandra 4.0 cluster (system.peers_v2, native_port, optionally a listening port of its own per node, with or without translation; no UP events there - the driver waits 10 s before reconnecting to x.0 / x.1 releases); 0..6 steps: DOWN / UP status events naming the private address, a node joins / leaves (refresh), plain refresh; after every step (polled up to 10 s): ring = reported members, each at its public address and port, found by its own address and by id, up members have a pool connection and are the only ones that serve queries; non-trivial = a join or leave; distinct by the case",
		Draw: func(t *rapid.T) interface{} {
			c := &vxC16TrCase{Proto: rapid.IntRange(1, 5).Draw(t, "proto"), N: rapid.IntRange(1, 4).Draw(t, "n"), PortMap: rapid.Bool().Draw(t, "portmap"),
				Policy: rapid.IntRange(0, 1).Draw(t, "policy"), V4: rapid.IntRange(0, 2).Draw(t, "cassandra4") == 0}
			if c.V4 {
				c.Ports = rapid.Bool().Draw(t, "own_ports")
				c.Direct = rapid.IntRange(0, 2).Draw(t, "direct") == 0
			}
			if c.Direct {
				c.PortMap = false
			}
			for i := rapid.IntRange(0, 6).Draw(t, "steps"); i > 0; i-- {
				c.Steps = append(c.Steps, vxC16TrStep{Op: rapid.SampledFrom([]string{"down", "down", "up", "join", "leave", "refresh"}).Draw(t, "op"), I: rapid.IntRange(0, 5).Draw(t, "i")})
			}
			return c
		},
		New: func() interface{} { return &vxC16TrCase{} },
		Run: func(ci interface{}, k *vstats.Case) error {
			return vxRunC16Translated(ci.(*vxC16TrCase), k)
		},
	})
}
