//go:build verif && go1.21

package gocql

// Authentication in several rounds (SASL-like): every AUTH_CHALLENGE goes to the Authenticator that the previous
// round returned, its answer is what the server receives next, and the AUTH_SUCCESS token goes to the last one.
// A challenge after the authenticator's last step (it returned no successor) ends the attempt with an error.

import (
	"fmt"
	"strings"
	"sync"
	"testing"
	"time"

	"pgregory.net/rapid"
	"verif.local/cqlspec"
	"verif.local/vnode"
	"verif.local/vstats"
	"verif.local/vx"
)

type vxAuthRoundsCase struct {
	Proto  int  `json:"proto"`
	Rounds int  `json:"rounds"` // AUTH_CHALLENGE frames the node sends before AUTH_SUCCESS
	Fresh  bool `json:"fresh"`  // every round returns a new Authenticator object (else: itself)
	Extra  bool `json:"extra"`  // the authenticator's chain is one step shorter than the node's challenges: its last step returns no successor
}

type vxAuthEvent struct {
	chain, step int
	kind, data  string
}

type vxAuthWorld struct {
	mu     sync.Mutex
	c      *vxAuthRoundsCase
	chains int
	events []vxAuthEvent
}

type vxAuthStep struct {
	w           *vxAuthWorld
	chain, step int
}

func (a *vxAuthStep) Challenge(req []byte) ([]byte, Authenticator, error) {
	w := a.w
	w.mu.Lock()
	defer w.mu.Unlock()
	w.events = append(w.events, vxAuthEvent{a.chain, a.step, "challenge", string(req)})
	resp := []byte(fmt.Sprintf("response-%d-%d", a.chain, a.step))
	if w.c.Extra && a.step >= w.c.Rounds-1 {
		return resp, nil, nil // the chain ends here: no successor, nothing more is expected from the server but success
	}
	if !w.c.Fresh {
		a.step++
		return resp, a, nil
	}
	return resp, &vxAuthStep{w: w, chain: a.chain, step: a.step + 1}, nil
}

func (a *vxAuthStep) Success(data []byte) error {
	a.w.mu.Lock()
	defer a.w.mu.Unlock()
	a.w.events = append(a.w.events, vxAuthEvent{a.chain, a.step, "success", string(data)})
	return nil
}

func vxRunAuthRounds(c *vxAuthRoundsCase, k *vstats.Case) error {
	if c.Proto < 2 || c.Proto > 5 || c.Rounds < 0 || c.Rounds > 4 || (c.Extra && c.Rounds == 0) {
		return nil
	}
	const class = "org.example.MultiRoundAuthenticator"
	cl := vnode.NewCluster(vxSpecs(1, 1))
	node := cl.Nodes()[0]
	node.AuthClass = class
	node.RequireAuth = true
	var nmu sync.Mutex
	got := map[int][]string{} // connection -> tokens of its AUTH_RESPONSE frames
	node.Intercept = func(rc *vnode.ReqCtx) bool {
		if rc.Req.Kind != "AUTH_RESPONSE" {
			return false
		}
		nmu.Lock()
		tok := ""
		if rc.Req.Token != nil {
			tok = string(vxUnhex(*rc.Req.Token))
		}
		got[rc.Conn.ID] = append(got[rc.Conn.ID], tok)
		n := len(got[rc.Conn.ID])
		nmu.Unlock()
		if n <= c.Rounds {
			t := fmt.Sprintf("%x", fmt.Sprintf("challenge-%d", n))
			rc.Reply(&cqlspec.Response{Kind: "AUTH_CHALLENGE", TokenHex: &t})
		} else {
			t := fmt.Sprintf("%x", "final")
			rc.Reply(&cqlspec.Response{Kind: "AUTH_SUCCESS", TokenHex: &t})
		}
		return true
	}
	w := &vxAuthWorld{c: c}
	done := make(chan struct{})
	var s *Session
	var err error
	go func() {
		defer close(done)
		s, err = vxClusterConfig(cl, c.Proto, func(cfg *ClusterConfig) {
			cfg.ConnectTimeout = 2 * time.Second
			cfg.AuthProvider = func(h *HostInfo) (Authenticator, error) {
				w.mu.Lock()
				defer w.mu.Unlock()
				w.chains++
				return &vxAuthStep{w: w, chain: w.chains}, nil
			}
		}).CreateSession()
	}()
	select {
	case <-done:
	case <-time.After(20 * time.Second):
		return fmt.Errorf("CreateSession did not return within 20 s (hang)")
	}
	if s != nil {
		defer s.Close()
	}
	w.mu.Lock()
	events := append([]vxAuthEvent{}, w.events...)
	chains := w.chains
	w.mu.Unlock()
	if c.Extra {
		k.NonTrivial()
		k.Class("a challenge after the authenticator's last step")
		if err == nil {
			return fmt.Errorf("the node sent %d challenges, the authenticator has %d steps (its last returned no successor): a session was created", c.Rounds, c.Rounds)
		}
		return nil
	}
	if err != nil {
		return fmt.Errorf("authentication in %d rounds failed: %v", c.Rounds, err)
	}
	if c.Rounds >= 2 {
		k.NonTrivial()
	}
	k.Class(fmt.Sprintf("auth rounds=%d fresh=%v", c.Rounds, c.Fresh))
	// per chain: every token went to the step it was meant for
	for ch := 1; ch <= chains; ch++ {
		var seq []string
		for _, e := range events {
			if e.chain == ch {
				seq = append(seq, fmt.Sprintf("%d:%s:%s", e.step, e.kind, e.data))
			}
		}
		want := []string{"0:challenge:" + class}
		for r := 1; r <= c.Rounds; r++ {
			want = append(want, fmt.Sprintf("%d:challenge:challenge-%d", r, r))
		}
		want = append(want, fmt.Sprintf("%d:success:final", c.Rounds+1)) // the successor the last challenge's step returned
		if strings.Join(seq, " ") != strings.Join(want, " ") {
			return fmt.Errorf("connection attempt %d: the authenticators saw [%s], the conversation was [%s] (step k is the Authenticator returned by step k-1)", ch, strings.Join(seq, " "), strings.Join(want, " "))
		}
	}
	// per connection: the node received the answer of every step, in order
	nmu.Lock()
	defer nmu.Unlock()
	for id, toks := range got {
		if len(toks) != c.Rounds+1 {
			return fmt.Errorf("connection %d: the node received %d AUTH_RESPONSE frames, want %d", id, len(toks), c.Rounds+1)
		}
		var chain string
		for i, t := range toks {
			var ch, st int
			if _, e := fmt.Sscanf(t, "response-%d-%d", &ch, &st); e != nil || st != i {
				return fmt.Errorf("connection %d: AUTH_RESPONSE #%d carries %q, want the answer of step %d", id, i, t, i)
			}
			if i == 0 {
				chain = fmt.Sprint(ch)
			} else if chain != fmt.Sprint(ch) {
				return fmt.Errorf("connection %d: AUTH_RESPONSE #%d carries %q, an answer of another connection's authenticator (chain %s)", id, i, t, chain)
			}
		}
	}
	return nil
}

func vxUnhex(h string) []byte {
	out := make([]byte, len(h)/2)
	fmt.Sscanf(h, "%x", &out)
	return out
}

func TestVxC04AuthRounds(t *testing.T) {
	vx.Check(t, vx.Prop{
		ID: "C04", Part: "TestVxC04AuthRounds",
		Rule: "protocol 2..5, an AuthProvider whose authenticators answer 0..4 AUTH_CHALLENGE rounds, each round returning a new Authenticator or itself; the node answers the k-th AUTH_RESPONSE with challenge-k and the last with AUTH_SUCCESS(final); optionally the authenticator's chain is one step shorter than the node's challenges; oracle: on every connection step k receives exactly challenge-k, the node receives the answers of steps 0..n in order, the last step receives the success token; with the shorter chain CreateSession fails with an error (no crash, no hang); non-trivial = at least two rounds or the shorter chain; distinct by the case",
		Draw: func(t *rapid.T) interface{} {
			c := &vxAuthRoundsCase{Proto: rapid.IntRange(2, 5).Draw(t, "proto"), Rounds: rapid.IntRange(0, 4).Draw(t, "rounds"), Fresh: rapid.Bool().Draw(t, "fresh")}
			c.Extra = c.Rounds > 0 && rapid.IntRange(0, 3).Draw(t, "extra") == 0
			return c
		},
		New: func() interface{} { return &vxAuthRoundsCase{} },
		Run: func(ci interface{}, k *vstats.Case) error { return vxRunAuthRounds(ci.(*vxAuthRoundsCase), k) },
	})
}
