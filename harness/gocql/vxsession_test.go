//go:build verif && go1.21

// Session-level helpers: a real gocql Session talking to lib/vnode's scripted cluster through
// ClusterConfig.Dialer (public API).
package gocql

import (
	"io/ioutil"
	"log"
	"testing"
	"time"

	"verif.local/cqlspec"
	"verif.local/vnode"
)

var vxQuietLogger = log.New(ioutil.Discard, "", 0)

// vxSpecs builds n hosts 10.0.0.1.. in dc/racks spread round robin, each with `tokens` tokens.
func vxSpecs(n, tokens int) []vnode.HostSpec {
	var out []vnode.HostSpec
	for i := 0; i < n; i++ {
		s := vnode.HostSpec{IP: "10.0.0." + itoa(i+1), Port: 9042, HostID: vnode.HostID(i + 1), DC: "dc1", Rack: "r" + itoa(i%2+1), Version: "3.11.4"}
		for j := 0; j < tokens; j++ {
			s.Tokens = append(s.Tokens, itoa64(int64(i*1000+j*100)*1000000000-5000000000000))
		}
		out = append(out, s)
	}
	return out
}

func itoa(i int) string { return itoa64(int64(i)) }

func itoa64(i int64) string {
	neg := i < 0
	if neg {
		i = -i
	}
	if i == 0 {
		return "0"
	}
	var b []byte
	for i > 0 {
		b = append([]byte{byte('0' + i%10)}, b...)
		i /= 10
	}
	if neg {
		b = append([]byte{'-'}, b...)
	}
	return string(b)
}

// vxClusterConfig returns a config that talks to cl. opt may adjust it.
func vxClusterConfig(cl *vnode.Cluster, proto int, opt func(*ClusterConfig)) *ClusterConfig {
	cl.Proto = proto
	cfg := NewCluster(cl.Nodes()[0].Spec.IP)
	cfg.ProtoVersion = proto
	cfg.Dialer = cl
	cfg.Timeout = 3 * time.Second
	cfg.ConnectTimeout = 3 * time.Second
	cfg.NumConns = 1
	cfg.Consistency = One
	cfg.Logger = vxQuietLogger
	cfg.ReconnectInterval = 0
	cfg.ReconnectionPolicy = &ConstantReconnectionPolicy{MaxRetries: 1, Interval: 5 * time.Millisecond}
	if opt != nil {
		opt(cfg)
	}
	return cfg
}

func vxVoid() *cqlspec.Response { return &cqlspec.Response{Kind: "VOID"} }

// vxBasicHandler is a minimal well-behaved node: PREPARE declares one int bind column per '?', one int
// result column "v"; EXECUTE returns one row (without metadata when the driver asked to skip it).
func vxBasicHandler(rc *vnode.ReqCtx) {
	resCols := []cqlspec.Column{{Keyspace: "ks1", Table: "t", Name: "v", Type: cqlspec.Scalar(cqlspec.Int)}}
	switch rc.Req.Kind {
	case "PREPARE":
		var bind []cqlspec.Column
		for i, ch := range rc.Req.Statement {
			if ch == '?' {
				bind = append(bind, cqlspec.Column{Keyspace: "ks1", Table: "t", Name: "b" + itoa(i), Type: cqlspec.Scalar(cqlspec.Int)})
			}
		}
		if bind == nil {
			bind = []cqlspec.Column{}
		}
		rc.Reply(&cqlspec.Response{Kind: "PREPARED", PreparedIDHex: hexOf([]byte(rc.Req.Statement)), Meta: &cqlspec.Metadata{Columns: bind},
			ResultMeta: &cqlspec.Metadata{Columns: resCols}})
	case "EXECUTE":
		m := &cqlspec.Metadata{Columns: resCols}
		if rc.Req.Params != nil && rc.Req.Params.SkipMeta {
			m.NoMetadata = true
		}
		rc.Reply(&cqlspec.Response{Kind: "ROWS", Meta: m, Rows: [][]cqlspec.Value{{cqlspec.I64Value(1)}}})
	default:
		rc.Reply(vxVoid())
	}
}

func hexOf(b []byte) string {
	const d = "0123456789abcdef"
	out := make([]byte, 0, 2*len(b))
	for _, x := range b {
		out = append(out, d[x>>4], d[x&15])
	}
	return string(out)
}

func TestVxSmokeSession(t *testing.T) {
	for proto := 1; proto <= 5; proto++ {
		cl := vnode.NewCluster(vxSpecs(2, 2))
		s, err := vxClusterConfig(cl, proto, nil).CreateSession()
		if err != nil {
			t.Fatalf("proto %d: %v", proto, err)
		}
		t0 := time.Now()
		for i := 0; i < 50; i++ {
			if err := s.Query("LIST x" + itoa(i)).Exec(); err != nil {
				t.Fatalf("proto %d query: %v", proto, err)
			}
		}
		s.Close()
		n := 0
		for _, l := range cl.AllLogs() {
			if l.Err != "" {
				t.Errorf("proto %d: node could not decode request: %s", proto, l.Err)
			}
			n++
		}
		t.Logf("proto %d: %d requests logged, 50 queries in %v", proto, n, time.Since(t0))
	}
}
