//go:build verif && go1.21

// C16 - the driver's picture of the cluster follows what the cluster reports.
//
// A real Session is attached to lib/vnode's scripted cluster.  A pre-drawn history of steps mutates
// the cluster's truth (what system.local / system.peers report, which nodes accept connections) and
// drives the session: synchronous refreshes, status / topology events handed to handleNodeEvent,
// control-connection loss, refresh failures, node crashes, queries.  After every step the driver is
// polled until it is quiescent and its ring, connection pools and selection policy are compared with
// a model of "what the cluster last reported".
//
// White-box identifiers used (a compile error here means "harness out of date", not a violation):
// Session.{ring,pool,policy,control,refreshRing,handleNodeEvent}, ring.{mu,hosts,hostIPToUUID,hostList,
// getHost,getHostByIP,allHosts}, policyConnPool.{mu,hostConnPools,addHost}, hostConnPool.{mu,conns,
// filling,closed,host}, controlConn.{getConn,reconnecting}, connHost.{conn,host}, Conn.{conn,Closed},
// statusChangeEventFrame, topologyChangeEventFrame, HostInfo.{nodeToNodeAddress}, ErrCannotFindHost.
package gocql

import (
	"bytes"
	"context"
	"errors"
	"fmt"
	"log"
	"net"
	"os"
	"runtime"
	"sort"
	"strconv"
	"strings"
	"sync"
	"sync/atomic"
	"testing"
	"time"

	"pgregory.net/rapid"
	"verif.local/cqlspec"
	"verif.local/vnode"
	"verif.local/vstats"
	"verif.local/vx"
)

// ---------------------------------------------------------------------------------------------
// case description

type vxC16Ev struct {
	Kind string `json:"kind"` // UP DOWN (status) | NEW_NODE REMOVED_NODE MOVED_NODE (topology)
	Who  int    `json:"who"`  // 0 ring member; 1 address the cluster reports but the driver does not know; 2 address nobody has
	Sel  int    `json:"sel"`
}

type vxC16Step struct {
	Op   string    `json:"op"`
	I    int       `json:"i,omitempty"`
	J    int       `json:"j,omitempty"`
	Flag bool      `json:"flag,omitempty"`
	Evs  []vxC16Ev `json:"evs,omitempty"`
}

type vxC16Case struct {
	Proto    int         `json:"proto"`
	N0       int         `json:"n0"`
	Policy   int         `json:"policy"` // 0 round robin, 1 token aware(rr), 2 dc aware, 3 token aware(dc aware), 4 rack aware
	RejectIP []int       `json:"reject_ip,omitempty"`
	RejectDC bool        `json:"reject_dc,omitempty"`
	DisStatus bool       `json:"no_status_events,omitempty"` // ClusterConfig.Events.DisableNodeStatusEvents: UP/DOWN events are ignored, topology events still count
	DisTopo   bool       `json:"no_topology_events,omitempty"` // ClusterConfig.Events.DisableTopologyEvents: NEW/REMOVED/MOVED_NODE events cause no refresh, status events still count
	Steps    []vxC16Step `json:"steps"`
}

// after the first confirmed violation in a process (rapid is shrinking) evaluations use a short watchdog
// and are not repeated; the saved case is judged again with the full watchdog by --replay
var vxC16SeenFailure int32

// vxC16Budget wraps a part's Run: verdicts of failed cases are remembered (rapid re-runs the minimal
// case at the end), and 15 s after the first confirmed violation further shrink candidates are not
// evaluated any more (rapid's own -rapid.shrinktime is only checked between shrink passes).
var (
	vxC16MemoMu sync.Mutex
	vxC16Memo   = map[string]error{}
	vxC16FailAt time.Time
)

func vxC16Budget(run func(ci interface{}, k *vstats.Case) error) func(ci interface{}, k *vstats.Case) error {
	return func(ci interface{}, k *vstats.Case) error {
		key := string(k.Enc())
		vxC16MemoMu.Lock()
		e, ok := vxC16Memo[key]
		exhausted := !vxC16FailAt.IsZero() && time.Since(vxC16FailAt) > 15*time.Second
		vxC16MemoMu.Unlock()
		if ok {
			return e
		}
		if exhausted {
			return nil
		}
		err := run(ci, k)
		if err != nil {
			if _, known := err.(*vx.KnownErr); !known {
				vxC16MemoMu.Lock()
				vxC16Memo[key] = err
				if vxC16FailAt.IsZero() {
					vxC16FailAt = time.Now()
				}
				vxC16MemoMu.Unlock()
			}
		}
		return err
	}
}

func vxC16Deadline() time.Time {
	if atomic.LoadInt32(&vxC16SeenFailure) != 0 {
		return time.Now().Add(3 * time.Second)
	}
	return time.Now().Add(vxC16Watchdog)
}

const (
	vxC16Watchdog  = 10 * time.Second
	vxC16Poll      = 2 * time.Millisecond
	vxC16KnownHold = 150 * time.Millisecond
	vxC16IdleGiveUp = 2 * time.Second
	vxC16ZeroUUID  = "00000000-0000-0000-0000-000000000000"
)

// ---------------------------------------------------------------------------------------------
// the world: scripted cluster + model

type vxC16Host struct { // one node object of the scripted cluster
	n     *vnode.Node
	ip    string
	id    string // 32 hex digits
	alive bool   // accepts new connections
}

type vxC16Row struct { // one row of the cluster's truth
	IP, ID, DC, Rack string
	Tokens           []string
	Kind             string // "" valid | norack nodc notokens noid allnull
	Fresh            bool   // invalid row with no node behind it
	Dup              bool   // second row carrying the host id of another row
	Peer             string // node-to-node address the cluster reports ("" = IP): peers.peer / local.broadcast_address
}

func (r vxC16Row) peerAddr() string {
	if r.Peer != "" {
		return r.Peer
	}
	return r.IP
}

type vxC16Member struct {
	ip  string
	peer string // node-to-node address (what the ring's by-address index and status events use); "" = ip
	bcast bool  // the driver's HostInfo carries a broadcast_address (it was built from, or merged with, a system.local row)
	up  bool       // expectation at quiescence: connected and offered (true) / not offered, no pool (false)
	via *vxC16Host // the node object the member's pool is connected to
}

func (m *vxC16Member) addr() string {
	if m.peer != "" {
		return m.peer
	}
	return m.ip
}

// connect models a pool fill for m: it succeeds iff a node accepts connections at m's address.
func (w *vxC16World) connect(m *vxC16Member) {
	if w.isAlive(m.ip) {
		m.up, m.via = true, w.cur[m.ip]
	} else {
		m.up, m.via = false, nil
	}
}

type vxC16Disc struct {
	kind string
	id   string
	ip   string
	msg  string
}

type vxC16World struct {
	c  *vxC16Case
	k  *vstats.Case
	cl *vnode.Cluster
	s  *Session

	rows   []vxC16Row
	cur    map[string]*vxC16Host // address -> node object that answers there now
	hosts  []*vxC16Host
	ctl    *vxC16Host
	ring   map[string]*vxC16Member // model: dashed host id -> member
	reject map[int]bool

	nextOctet int
	nextPeer  int
	nextID    int
	free      []string // addresses whose node has left
	peersErr  bool
	reused    map[string]bool // addresses taken over, in this step, from a host that left the ring in the same refresh
	nullIDRow bool            // the last report contained a peers row whose host_id is null
	dupReport bool            // a report processed in this step carried one host id in two rows
	connecting map[string]bool // host ids for which this step started a connection attempt (UP event)
	lateUp     map[string]bool // ... and which the refresh of the same step removed or moved

	mu     sync.Mutex
	served []string
	dial   map[string]bool // address -> accepts connections (read by the dialer from driver goroutines)

	baseline map[string]bool // goroutines that existed before the session (ignored by the quiescence scan)
	stackBuf []byte

	slow bool // event-frame variant: the control node is left alone, addresses are not reused, no early exit for known defects

	added, changed, confirmed bool // non-triviality bookkeeping
	step                      int
}

func vxC16Dashed(h string) string {
	if len(h) != 32 {
		return h
	}
	return h[0:8] + "-" + h[8:12] + "-" + h[12:16] + "-" + h[16:20] + "-" + h[20:]
}

// DialContext implements gocql.Dialer: a node that is down or draining refuses connections.
func (w *vxC16World) DialContext(ctx context.Context, network, addr string) (net.Conn, error) {
	ip, _, _ := net.SplitHostPort(addr)
	w.mu.Lock()
	ok := w.dial[ip]
	w.mu.Unlock()
	if !ok {
		return nil, fmt.Errorf("c16: %s: %w", addr, vnode.ErrRefused)
	}
	return w.cl.DialContext(ctx, network, addr)
}

func (w *vxC16World) setAlive(h *vxC16Host, v bool) {
	h.alive = v
	if w.cur[h.ip] == h {
		w.mu.Lock()
		w.dial[h.ip] = v
		w.mu.Unlock()
	}
}

func (w *vxC16World) newHost(ip, id, dc, rack string, toks []string) *vxC16Host {
	n := w.cl.AddNode(vnode.HostSpec{IP: ip, Port: 9042, HostID: id, DC: dc, Rack: rack, Tokens: toks, Version: "3.11.4"})
	h := &vxC16Host{n: n, ip: ip, id: id, alive: true}
	n.Handler = func(rc *vnode.ReqCtx) {
		if rc.Req.Kind == "QUERY" {
			w.mu.Lock()
			w.served = append(w.served, ip)
			w.mu.Unlock()
		}
		if rc.Req.Kind == "PREPARE" { // token-aware policies prepare the statement to learn its routing key
			rc.Reply(&cqlspec.Response{Kind: "PREPARED", PreparedIDHex: "00", Meta: &cqlspec.Metadata{Columns: []cqlspec.Column{}}, ResultMeta: &cqlspec.Metadata{Columns: []cqlspec.Column{}}})
			return
		}
		rc.Reply(vxVoid())
	}
	w.cur[ip] = h
	w.hosts = append(w.hosts, h)
	w.setAlive(h, true)
	return h
}

func (w *vxC16World) freshIP() string {
	w.nextOctet++
	return "10.0.0." + strconv.Itoa(w.nextOctet)
}

func (w *vxC16World) freshID() string {
	w.nextID++
	return vnode.HostID(w.nextID)
}

func vxC16Tokens(n int) []string {
	return []string{strconv.FormatInt(int64(n)*1000003*1000003-4000000000000000000, 10), strconv.FormatInt(int64(n)*7000003*1000003+1000000000000000000, 10)}
}

func (w *vxC16World) isAlive(ip string) bool {
	h := w.cur[ip]
	return h != nil && h.alive
}

func (w *vxC16World) kill(h *vxC16Host) []*vnode.ServerConn {
	w.setAlive(h, false)
	cs := h.n.Conns()
	for _, sc := range cs {
		sc.Close()
	}
	return cs
}

// publish makes the scripted cluster report w.rows.
func (w *vxC16World) publish() {
	var specs []vnode.HostSpec
	for _, r := range w.rows {
		s := vnode.HostSpec{IP: r.IP, Port: 9042, HostID: r.ID, DC: r.DC, Rack: r.Rack, Tokens: r.Tokens, Version: "3.11.4", Peer: r.Peer}
		switch r.Kind {
		case "norack":
			s.Rack = ""
		case "nodc":
			s.DC = ""
		case "notokens":
			s.Tokens = nil
		case "noid":
			s.HostID = ""
		case "allnull":
			s.Rack, s.DC, s.Tokens, s.HostID = "", "", nil, ""
		case "noaddr":
			s.NoAddr = true
		}
		specs = append(specs, s)
	}
	if specs == nil {
		specs = []vnode.HostSpec{}
	}
	w.cl.SetTruth(specs)
}

func (w *vxC16World) filtered(ip, dc string) bool {
	p := net.ParseIP(ip).To4()
	if p != nil && w.reject[int(p[3])] {
		return true
	}
	return w.c.RejectDC && dc != "dc1"
}

// reported is what the control node answers now: its own row first, then its peers.
func (w *vxC16World) reported() (local vxC16Row, peers []vxC16Row) {
	found := false
	for _, r := range w.rows {
		if r.ID == w.ctl.id && r.Kind != "noid" && r.Kind != "allnull" {
			if !found {
				local, found = r, true
				if r.Kind == "nodc" {
					local.DC = "" // what the host filter sees
				}
			}
			continue
		}
		peers = append(peers, r)
	}
	if !found {
		sp := w.ctl.n.Spec
		local = vxC16Row{IP: sp.IP, ID: sp.HostID, DC: sp.DC, Rack: sp.Rack, Tokens: sp.Tokens}
	}
	return
}

// modelRefresh applies one successful refresh to the model.  It returns whether the report carried
// the same host id twice.
func (w *vxC16World) modelRefresh(actual map[string]string) {
	dupIDs := false
	local, peers := w.reported()
	type ent struct {
		ips   []string
		peers []string
		dc    string
	}
	rep := map[string]*ent{}
	var order []string
	add := func(r vxC16Row) {
		id := vxC16Dashed(r.ID)
		e := rep[id]
		if e == nil {
			e = &ent{dc: r.DC}
			rep[id] = e
			order = append(order, id)
		} else {
			dupIDs = true
		}
		e.ips = append(e.ips, r.IP)
		e.peers = append(e.peers, r.peerAddr())
	}
	add(local)
	w.nullIDRow = false
	for _, r := range peers {
		if r.Kind == "noid" {
			w.nullIDRow = true
		}
		if r.Kind != "" {
			continue
		}
		add(r)
	}
	next := map[string]*vxC16Member{}
	for _, id := range order {
		e := rep[id]
		ip, peer := e.ips[0], e.peers[0]
		if len(e.ips) > 1 {
			// several rows for one host id: either address is acceptable; follow the driver's choice
			for ci, cand := range e.ips {
				if actual[id] == cand {
					ip, peer = cand, e.peers[ci]
				}
			}
		}
		if w.filtered(ip, e.dc) {
			continue
		}
		isLocal := id == vxC16Dashed(local.ID)
		if old := w.ring[id]; old != nil && old.ip == ip && old.addr() == peer {
			if isLocal {
				old.bcast = true // host.update fills the (equal) broadcast address in
			}
			next[id] = old
			continue
		}
		for oid, om := range w.ring {
			if oid != id && om.ip == ip {
				w.reused[ip] = true
			}
		}
		m := &vxC16Member{ip: ip, peer: peer, bcast: isLocal}
		w.connect(m)
		next[id] = m
	}
	if w.changed {
		w.confirmed = true
	}
	for id := range w.connecting {
		if old := w.ring[id]; old != nil && next[id] != old {
			w.lateUp[id] = true
		}
	}
	w.ring = next
	if dupIDs {
		w.dupReport = true
	}
}

// ---------------------------------------------------------------------------------------------
// reading the driver

var vxC16Transient = []string{
	"(*Session).handleNodeConnected", "(*Session).startPoolFill", "(*hostConnPool).fill", "(*hostConnPool).connect",
	"(*hostConnPool).Close", "(*hostConnPool).HandleError", "(*controlConn).reconnect", "(*controlConn).attemptReconnect",
	"(*controlConn).HandleError", "(*controlConn).setupConn", "(*Session).handleNodeDown", "(*Session).handleNodeUp",
	"(*Session).handleEvent", "(*Session).handleNodeEvent", "gocql.refreshRing", "(*Conn).closeWithError",
	"(*policyConnPool).addHost", "(*policyConnPool).removeHost", "(*Session).removeHost", "(*Session).dial", "(*Session).connect",
}

// transients lists driver goroutines that are in the middle of a topology/pool action.
func (w *vxC16World) transients(collectIDs bool) (found []string, ids map[string]bool) {
	if w.stackBuf == nil {
		w.stackBuf = make([]byte, 4<<20)
	}
	n := runtime.Stack(w.stackBuf, true)
	ids = map[string]bool{}
	for _, blk := range bytes.Split(w.stackBuf[:n], []byte("\n\n")) {
		nl := bytes.IndexByte(blk, '\n')
		if nl < 0 {
			continue
		}
		hdr := string(blk[:nl])
		f := strings.Fields(hdr)
		if len(f) < 2 || f[0] != "goroutine" {
			continue
		}
		gid := f[1]
		if w.baseline[gid] {
			continue
		}
		hit := ""
		for _, ln := range strings.Split(string(blk[nl+1:]), "\n") {
			if strings.HasPrefix(ln, "created by") || strings.HasPrefix(ln, "\t") {
				continue
			}
			for _, t := range vxC16Transient {
				if strings.Contains(ln, t) {
					hit = t
				}
			}
		}
		if collectIDs {
			ids[gid] = true
		}
		if hit != "" {
			found = append(found, hit)
		}
	}
	return
}

func vxC16Drain(it NextHost) []*HostInfo {
	var out []*HostInfo
	for i := 0; i < 4096; i++ {
		sh := it()
		if sh == nil {
			break
		}
		out = append(out, sh.Info())
	}
	return out
}

func (w *vxC16World) actualAddrs() map[string]string {
	out := map[string]string{}
	r := &w.s.ring
	r.mu.RLock()
	hs := make([]*HostInfo, 0, len(r.hosts))
	for _, h := range r.hosts {
		hs = append(hs, h)
	}
	r.mu.RUnlock()
	for _, h := range hs {
		out[h.HostID()] = h.ConnectAddress().String()
	}
	return out
}

// discrepancies compares the driver with the model. busy: the driver is visibly not quiescent yet.
func (w *vxC16World) discrepancies() (ds []vxC16Disc, busy string) {
	s := w.s
	add := func(kind, id, ip, f string, a ...interface{}) {
		ds = append(ds, vxC16Disc{kind: kind, id: id, ip: ip, msg: fmt.Sprintf(f, a...)})
	}
	// control connection
	ch := s.control.getConn()
	if ch == nil || ch.conn.Closed() || atomic.LoadInt32(&s.control.reconnecting) != 0 {
		busy = "control connection is being re-established"
	}

	// ring snapshot
	r := &s.ring
	r.mu.RLock()
	hosts := make(map[string]*HostInfo, len(r.hosts))
	for id, h := range r.hosts {
		hosts[id] = h
	}
	byIP := make(map[string]string, len(r.hostIPToUUID))
	for ip, id := range r.hostIPToUUID {
		byIP[ip] = id
	}
	list := append([]*HostInfo{}, r.hostList...)
	r.mu.RUnlock()

	ids := make([]string, 0, len(hosts))
	for id := range hosts {
		ids = append(ids, id)
	}
	sort.Strings(ids)
	mids := make([]string, 0, len(w.ring))
	for id := range w.ring {
		mids = append(mids, id)
	}
	sort.Strings(mids)

	// (a) ring = model
	for _, id := range mids {
		m := w.ring[id]
		h := hosts[id]
		if h == nil {
			add("ring-missing", id, m.ip, "host %s at %s was reported by the cluster but is not in the ring", id, m.ip)
			continue
		}
		if got := h.ConnectAddress().String(); got != m.ip {
			add("ring-addr", id, m.ip, "host %s is reported at %s but the ring has it at %s", id, m.ip, got)
		}
		if got := h.nodeToNodeAddress().String(); got != m.addr() {
			add("ring-addr", id, m.ip, "host %s is reported with node-to-node address %s but the ring's node-to-node address is %s", id, m.addr(), got)
		}
		if h.HostID() != id {
			add("ring-key", id, m.ip, "ring.hosts[%s] holds a HostInfo whose id is %s", id, h.HostID())
		}
	}
	for _, id := range ids {
		if w.ring[id] == nil {
			add("ring-extra", id, hosts[id].ConnectAddress().String(), "ring contains host %s (%s) which the cluster did not report (or which is invalid / filtered)", id, hosts[id].ConnectAddress())
		}
	}
	// (b) the ordered list and the by-id map hold the same hosts
	seen := map[*HostInfo]int{}
	for _, h := range list {
		seen[h]++
	}
	for _, id := range ids {
		h := hosts[id]
		if seen[h] != 1 {
			add("list", id, h.ConnectAddress().String(), "host %s appears %d times in ring.hostList", id, seen[h])
		}
	}
	if len(list) != len(hosts) {
		add("list", "", "", "ring.hostList has %d entries, ring.hosts has %d", len(list), len(hosts))
	}
	// (c) lookup by address finds every ring member, and nothing else
	for _, id := range ids {
		h := hosts[id]
		ip := h.nodeToNodeAddress().String()
		got, ok := r.getHostByIP(ip)
		if !ok || got != h {
			gid := "<nil>"
			if got != nil {
				gid = got.HostID()
			}
			add("byip-missing", id, ip, "ring member %s cannot be looked up by its address %s (found=%v host=%s) although getHost(id) returns it", id, ip, ok, gid)
		}
		if r.getHost(id) != h {
			add("byid", id, ip, "getHost(%s) does not return the ring member", id)
		}
	}
	ips := make([]string, 0, len(byIP))
	for ip := range byIP {
		ips = append(ips, ip)
	}
	sort.Strings(ips)
	for _, ip := range ips {
		h := hosts[byIP[ip]]
		if h == nil {
			add("byip-dangling", byIP[ip], ip, "address index maps %s to host id %s which is not in the ring", ip, byIP[ip])
		} else if got := h.nodeToNodeAddress().String(); got != ip {
			add("byip-stale", byIP[ip], ip, "address index maps %s to host %s whose address is %s", ip, byIP[ip], got)
		}
	}

	// (d) pools
	p := s.pool
	p.mu.RLock()
	pools := make(map[string]*hostConnPool, len(p.hostConnPools))
	for id, hp := range p.hostConnPools {
		pools[id] = hp
	}
	p.mu.RUnlock()
	pids := make([]string, 0, len(pools))
	for id := range pools {
		pids = append(pids, id)
	}
	sort.Strings(pids)
	size := map[string]int{}
	for _, id := range pids {
		hp := pools[id]
		hp.mu.RLock()
		filling, closed, n := hp.filling, hp.closed, len(hp.conns)
		open := 0
		for _, c := range hp.conns {
			if !c.Closed() {
				open++
			}
		}
		hp.mu.RUnlock()
		if filling {
			busy = "pool of " + id + " is filling"
		}
		if open != n {
			busy = "pool of " + id + " holds a closed connection"
		}
		size[id] = n
		h := hosts[id]
		if h == nil {
			add("pool-extra", id, hp.host.ConnectAddress().String(), "connection pool exists for host %s (%s) which is not in the ring", id, hp.host.ConnectAddress())
			continue
		}
		if closed {
			add("pool-closed", id, "", "pool map holds a closed pool for %s", id)
		}
		if !hp.host.ConnectAddress().Equal(h.ConnectAddress()) {
			add("pool-addr", id, h.ConnectAddress().String(), "pool of %s connects to %s but the ring has the host at %s", id, hp.host.ConnectAddress(), h.ConnectAddress())
		}
	}
	for _, id := range mids {
		m := w.ring[id]
		h := hosts[id]
		if h == nil {
			continue
		}
		if m.up {
			if size[id] < 1 {
				add("pool-missing", id, m.ip, "host %s (%s) accepts connections and should be connected, but its pool has %d connections", id, m.ip, size[id])
			}
			if !h.IsUp() {
				add("state", id, m.ip, "host %s (%s) should be up (connected) but its state is %s", id, m.ip, h.State())
			}
		} else {
			if _, ok := pools[id]; ok {
				add("pool-down", id, m.ip, "host %s (%s) is down but still has a connection pool (%d connections)", id, m.ip, size[id])
			}
			if h.IsUp() {
				add("state", id, m.ip, "host %s (%s) was reported down / is unreachable and has not been connected since, but its state is UP", id, m.ip)
			}
		}
	}

	// (e) what the selection policy offers
	check := func(label string, offered []*HostInfo) {
		got := map[string]bool{}
		for _, h := range offered {
			id := h.HostID()
			ip := h.ConnectAddress().String()
			m := w.ring[id]
			switch {
			case m == nil:
				add("offer-extra", id, ip, "%s offers host %s (%s) which is not a member of the cluster as last reported", label, id, ip)
			case m.ip != ip:
				add("offer-extra", id, ip, "%s offers host %s at %s but the cluster reports it at %s", label, id, ip, m.ip)
			case !m.up:
				add("offer-down", id, ip, "%s offers host %s (%s) which was reported down / is unreachable and has not been connected since", label, id, ip)
			}
			if got[id] {
				add("offer-twice", id, ip, "%s offers host %s twice", label, id)
			}
			got[id] = true
		}
		for _, id := range mids {
			if w.ring[id].up && !got[id] {
				add("offer-missing", id, w.ring[id].ip, "%s does not offer host %s (%s) although it is a connected member of the cluster", label, id, w.ring[id].ip)
			}
		}
	}
	check("Pick(nil)", vxC16Drain(s.policy.Pick(nil)))
	if w.c.Policy == 1 || w.c.Policy == 3 {
		q := s.Query("LIST c16").RoutingKey([]byte{byte(w.step), 1, 2, 3})
		check("Pick(query with routing key)", vxC16Drain(s.policy.Pick(q)))
	}
	return
}

func vxC16Fmt(ds []vxC16Disc) string {
	var b strings.Builder
	for i, d := range ds {
		if i == 6 {
			fmt.Fprintf(&b, "; ... %d more", len(ds)-i)
			break
		}
		if i > 0 {
			b.WriteString("; ")
		}
		b.WriteString("[" + d.kind + "] " + d.msg)
	}
	return b.String()
}

func (w *vxC16World) dump() string {
	var b strings.Builder
	b.WriteString("model ring:")
	mids := make([]string, 0, len(w.ring))
	for id := range w.ring {
		mids = append(mids, id)
	}
	sort.Strings(mids)
	for _, id := range mids {
		fmt.Fprintf(&b, " %s@%s up=%v", id[:8], w.ring[id].ip, w.ring[id].up)
	}
	b.WriteString(" | driver ring:")
	hs := w.s.ring.allHosts()
	sort.Slice(hs, func(i, j int) bool { return hs[i].HostID() < hs[j].HostID() })
	for _, h := range hs {
		fmt.Fprintf(&b, " %s@%s %s", h.HostID()[:8], h.ConnectAddress(), h.State())
	}
	b.WriteString(" | truth:")
	for _, r := range w.rows {
		fmt.Fprintf(&b, " %s@%s/%s%s", vxC16Dashed(r.ID)[:8], r.IP, r.DC, map[bool]string{true: "(" + r.Kind + ")", false: ""}[r.Kind != ""])
	}
	if w.ctl != nil {
		b.WriteString(" | control=" + w.ctl.ip)
	}
	b.WriteString(" | policy lists:")
	for _, h := range vxC16PolicyHosts(w.s.policy) {
		fmt.Fprintf(&b, " %s@%s %s", h.HostID()[:8], h.ConnectAddress(), h.State())
	}
	return b.String()
}

// vxC16PolicyHosts lists what the policy's copy-on-write lists hold (white-box; including hosts that
// Pick hides because they are down).
func vxC16PolicyHosts(p HostSelectionPolicy) []*HostInfo {
	switch x := p.(type) {
	case *roundRobinHostPolicy:
		return x.hosts.get()
	case *dcAwareRR:
		return append(append([]*HostInfo{}, x.localHosts.get()...), x.remoteHosts.get()...)
	case *rackAwareRR:
		var out []*HostInfo
		for i := range x.hosts {
			out = append(out, x.hosts[i].get()...)
		}
		return out
	case *tokenAwareHostPolicy:
		return append(append([]*HostInfo{}, x.hosts.get()...), vxC16PolicyHosts(x.fallback)...)
	}
	return nil
}

// classify recognises the confirmed defects of /repo (narrowly): every discrepancy must belong to one.
func (w *vxC16World) classify(ds []vxC16Disc) error {
	if len(ds) == 0 {
		return nil
	}
	// (1) the same host id in two rows: refreshRing gives up with ErrCannotFindHost half way (reconnect only logs it)
	// (repaired in /repo: the refresh completes and the first row wins; if it fails again doRefresh reports
	// it under the id that is now listed as fixed.) Which of two rows with one host id describes the node
	// is not defined by the property, and the model's choice need not be the driver's: while such rows are
	// being reported, a disagreement ends the history without a verdict (counted).
	if w.dupReport {
		return errVxC16StopDup
	}
	first := ""
	for _, d := range ds {
		cls := ""
		// (2) an address taken over, in this step, from a host that left it in the same refresh:
		// ring.removeHost(old id) deletes the address-index entry by the *address* of the host it removes
		// (which by then belongs to the new owner, or is not the key the host was filed under), and the
		// policies' host lists are keyed by address: the new owner is refused, then the old one dropped.
		related := w.reused[d.ip]
		if m := w.ring[d.id]; m != nil && w.reused[m.ip] {
			related = true
		}
		switch d.kind {
		case "byip-missing", "byip-stale", "offer-missing", "pool-missing", "state":
			if related {
				cls = "reuse"
			}
		}
		// (2b) the same mechanism across steps: the policy's list (keyed by connect address) still holds a
		// HostInfo that is no longer the ring member filed under that address (it left the address earlier and
		// a late AddHost put it back, hidden while it is down), so AddHost for the present owner is refused
		if cls == "" && d.kind == "offer-missing" {
			if cur := w.s.ring.getHost(d.id); cur != nil {
				for _, ph := range vxC16PolicyHosts(w.s.policy) {
					if ph != cur && ph.ConnectAddress().Equal(cur.ConnectAddress()) && w.s.ring.getHost(ph.HostID()) != ph {
						cls = "reuse"
					}
				}
			}
		}
		// (2c) the other face of (2)/(2b): the HostInfo that left the address is the one the policy still files
		// under it, and while it counts as up it is offered in place of the present owner - accepted only next to
		// the refusal of that owner (an offer-missing at the same address in the same set of discrepancies)
		if cls == "" && d.kind == "offer-extra" && w.s.ring.getHost(d.id) == nil {
			for _, o := range ds {
				if o.kind == "offer-missing" && o.ip == d.ip && o.id != d.id {
					if cur := w.s.ring.getHost(o.id); cur != nil {
						for _, ph := range vxC16PolicyHosts(w.s.policy) {
							if ph.HostID() == d.id && ph.ConnectAddress().Equal(cur.ConnectAddress()) {
								cls = "reuse"
							}
						}
					}
				}
			}
		}
		// (4) an UP event started a connection to a host which the refresh of the same batch then removed
		// (or moved): pool.fill's "go handleNodeConnected(host)" may run after removeHost and puts the
		// removed HostInfo back into the policy (HostUp = AddHost), where nothing removes it any more
		if cls == "" && w.lateUp[d.id] && (d.kind == "offer-extra" || d.kind == "offer-twice") {
			cls = "late"
		}
		// (3) a peers row with a null host_id passes isValidPeer (UUID zero value prints as a non-empty string)
		if cls == "" && w.nullIDRow && d.id == vxC16ZeroUUID && (d.kind == "ring-extra" || d.kind == "pool-extra") {
			cls = "nullid"
		}
		if cls == "" {
			return nil
		}
		if first == "" {
			first = cls
		}
	}
	if first == "late" {
		return vx.Known("C16-late-connected-readds-removed-host", "step %d: a host that was being connected (UP event) while the refresh removed it is back in the selection policy: %s", w.step, vxC16Fmt(ds))
	}
	if first == "reuse" {
		return vx.Known("C16-addr-reuse-loses-new-owner", "step %d: a host owns an address that a HostInfo which left it still occupies in the policy's address-keyed list: %s", w.step, vxC16Fmt(ds))
	}
	return vx.Known("C16-null-hostid-peer-accepted", "step %d: a system.peers row with a null host_id was accepted as a ring member: %s", w.step, vxC16Fmt(ds))
}

// settle waits until the driver is quiescent and agrees with the model.
func (w *vxC16World) settle(what string, closed []*vnode.ServerConn) error {
	deadline := vxC16Deadline()
	var knownSince, idleSince time.Time
	var last []vxC16Disc
	var lastBusy string
	for {
		busy := ""
		for _, sc := range closed {
			if !sc.Client.Closed() {
				busy = "the driver has not yet noticed a connection closed by the node"
			}
		}
		var ds []vxC16Disc
		if busy == "" {
			ds, busy = w.discrepancies()
		}
		if busy == "" {
			if tr, _ := w.transients(false); len(tr) > 0 {
				busy = "driver goroutines still working: " + strings.Join(tr, ",")
			}
		}
		last, lastBusy = ds, busy
		if busy == "" && len(ds) == 0 {
			return nil
		}
		if busy == "" {
			if kerr := w.classify(ds); kerr != nil && !w.slow {
				if knownSince.IsZero() {
					knownSince = time.Now()
				} else if time.Since(knownSince) > vxC16KnownHold {
					return kerr
				}
			} else {
				knownSince = time.Time{}
			}
		} else {
			knownSince = time.Time{}
		}
		// In the synchronous variant no timer of the driver is pending: a disagreement that persists
		// while no driver goroutine is working on connections or topology for 2 s will not go away
		// (the full watchdog remains the bound whenever something is still moving).
		if busy == "" && !w.slow {
			if idleSince.IsZero() {
				idleSince = time.Now()
			} else if time.Since(idleSince) > vxC16IdleGiveUp {
				break
			}
		} else {
			idleSince = time.Time{}
		}
		if time.Now().After(deadline) {
			break
		}
		time.Sleep(vxC16Poll)
	}
	if kerr := w.classify(last); kerr != nil && lastBusy == "" {
		return kerr
	}
	if len(last) == 0 {
		return fmt.Errorf("step %d (%s): the driver did not become quiescent within %v: %s || %s", w.step, what, vxC16Watchdog, lastBusy, w.dump())
	}
	return fmt.Errorf("step %d (%s): at quiescence (waited up to %v) the driver still disagrees with what the cluster reported: %s (busy=%q) || %s",
		w.step, what, vxC16Watchdog, vxC16Fmt(last), lastBusy, w.dump())
}

// controlMoved waits for a new control connection after the old one was closed by the node and
// brings the model up to date with what setupConn + reconnect's refresh are specified to do.
func (w *vxC16World) controlMoved(old *connHost) error {
	deadline := vxC16Deadline()
	var ch *connHost
	for {
		ch = w.s.control.getConn()
		if ch != nil && ch != old && !ch.conn.Closed() && atomic.LoadInt32(&w.s.control.reconnecting) == 0 {
			break
		}
		if time.Now().After(deadline) {
			return fmt.Errorf("step %d: the control connection was not re-established within %v although a known node accepts connections || %s", w.step, vxC16Watchdog, w.dump())
		}
		time.Sleep(vxC16Poll)
	}
	// (connHost.host may be a HostInfo that still carries an older address of the same host id)
	ip := ch.conn.conn.RemoteAddr().(*net.TCPAddr).IP.String()
	h := w.cur[ip]
	if h == nil || !h.alive {
		return fmt.Errorf("step %d: control connection claims to be connected to %s where no node accepts connections", w.step, ip)
	}
	w.ctl = h
	local, _ := w.reported()
	id := vxC16Dashed(local.ID)
	if m := w.ring[id]; m != nil && m.ip != local.IP && w.peersErr {
		// the node found at the known address is a known host id that was filed under another address,
		// and the peers cannot be read: again not defined by the property
		return errVxC16Stop
	}
	if m := w.ring[id]; m != nil {
		if !m.bcast {
			// setupConn merges the node's system.local row into the known host (ring.addOrUpdate): a host
			// learnt from system.peers has no broadcast address yet, the one filled in takes precedence
			m.peer, m.bcast = local.peerAddr(), true
		}
		if !m.up {
			w.connect(m) // setupConn: go startPoolFill(host)
		}
	} else {
		if w.peersErr {
			// the new control node calls itself a host id the driver has never heard of and the peers
			// cannot be read: what the ring should hold now is not defined by the property
			return errVxC16Stop
		}
		for _, om := range w.ring {
			if om.ip == local.IP {
				w.reused[local.IP] = true
			}
		}
		m := &vxC16Member{ip: local.IP, peer: local.peerAddr(), bcast: true}
		w.connect(m)
		w.ring[id] = m
	}
	if !w.peersErr {
		w.modelRefresh(w.actualAddrs())
	}
	return nil
}

var errVxC16Stop = errors.New("history left the domain of the model")
var errVxC16StopDup = errors.New("history left the domain of the model (duplicate host id rows)")

func (w *vxC16World) dupKnown(err error) error {
	return vx.Known("C16-dup-hostid-aborts-refresh", "step %d: system.peers carries the same host_id in two rows; refresh: %v", w.step, err)
}

// doRefresh calls Session.refreshRing synchronously and updates the model.
func (w *vxC16World) doRefresh() error {
	err := w.s.refreshRing()
	if w.peersErr {
		return nil // a failed refresh must leave everything as it was; checked by settle
	}
	// did the report carry duplicate ids / null ids ?
	local, peers := w.reported()
	cnt := map[string]int{local.ID: 1}
	dup, nulls := false, 0
	for _, r := range peers {
		if r.Kind == "noid" {
			nulls++
		}
		if r.Kind == "" {
			cnt[r.ID]++
			if cnt[r.ID] > 1 {
				dup = true
			}
		}
	}
	if err != nil {
		if errors.Is(err, ErrCannotFindHost) && dup {
			w.modelRefresh(w.actualAddrs())
			ds, _ := w.discrepancies()
			return w.dupKnown(fmt.Errorf("%v; left undone: %s", err, vxC16Fmt(ds)))
		}
		if errors.Is(err, ErrCannotFindHost) && nulls > 1 {
			return vx.Known("C16-null-hostid-peer-accepted", "step %d: two system.peers rows with a null host_id are both taken for host %s: %v", w.step, vxC16ZeroUUID, err)
		}
		return fmt.Errorf("step %d: refreshRing failed although the control node answered system.local and system.peers: %v || %s", w.step, err, w.dump())
	}
	w.modelRefresh(w.actualAddrs())
	return nil
}

// statusEvent hands one STATUS_CHANGE event for m (named by its node-to-node address) to the driver
// and applies it to the model.
func (w *vxC16World) statusEvent(m *vxC16Member, kind string) {
	if w.c.DisStatus {
		// status events are disabled: the driver ignores the frame
		w.s.handleNodeEvent([]frame{&statusChangeEventFrame{change: kind, host: net.ParseIP(m.addr()).To4(), port: 9042}})
		return
	}
	if kind == "DOWN" {
		m.up, m.via = false, nil
	} else if !m.up {
		w.connect(m)
		if m.up {
			w.connecting[w.idOf(m)] = true
		}
	}
	w.s.handleNodeEvent([]frame{&statusChangeEventFrame{change: kind, host: net.ParseIP(m.addr()).To4(), port: 9042}})
}

// alternative: after losing `except` the control connection can move to another node, i.e. some ring
// member's address (or the contact point) is served by a live node that the host filter accepts.
func (w *vxC16World) alternative(except *vxC16Host) bool {
	ok := func(ip string) bool {
		h := w.cur[ip]
		if ip == except.ip || h == nil || !h.alive {
			return false
		}
		for _, r := range w.rows {
			if r.ID == h.id && r.IP == ip && !r.Dup {
				dc := r.DC
				if r.Kind == "nodc" || r.Kind == "allnull" {
					dc = ""
				}
				return !w.filtered(ip, dc)
			}
		}
		return false
	}
	ips := []string{"10.0.0.1"}
	for _, m := range w.ring {
		ips = append(ips, m.ip)
	}
	for _, ip := range ips {
		if ok(ip) {
			return true
		}
	}
	return false
}

func (w *vxC16World) hostByRow(r vxC16Row) *vxC16Host {
	for i := len(w.hosts) - 1; i >= 0; i-- {
		if w.hosts[i].id == r.ID && w.hosts[i].ip == r.IP {
			return w.hosts[i]
		}
	}
	return nil
}

// realRows: indexes of rows that have a node behind them.
func (w *vxC16World) realRows(onlyValid bool) []int {
	var out []int
	for i, r := range w.rows {
		if r.Fresh || r.Dup {
			continue
		}
		if onlyValid && r.Kind != "" {
			continue
		}
		out = append(out, i)
	}
	return out
}

func (w *vxC16World) dropRow(i int) {
	id := w.rows[i].ID
	var out []vxC16Row
	for j, r := range w.rows {
		if j == i || (r.Dup && r.ID == id) {
			continue
		}
		out = append(out, r)
	}
	w.rows = out
}

func (w *vxC16World) release(ip string) {
	if ip != "10.0.0.1" {
		w.free = append(w.free, ip)
	}
}

func (w *vxC16World) takeFree() (string, bool) {
	if w.slow {
		return "", false
	}
	for i, ip := range w.free {
		if h := w.cur[ip]; h == nil || !h.alive {
			w.free = append(w.free[:i:i], w.free[i+1:]...)
			return ip, true
		}
	}
	return "", false
}

func (w *vxC16World) idOf(m *vxC16Member) string {
	for id, x := range w.ring {
		if x == m {
			return id
		}
	}
	return ""
}

// lostNode: h died; the members connected to it lose their connections and try once to reconnect.
func (w *vxC16World) lostNode(h *vxC16Host) {
	for _, m := range w.ring {
		if m.via == h {
			w.connect(m)
		}
	}
}

// apply runs one step. skipped: the step does not apply to the current state.
func (w *vxC16World) apply(st vxC16Step) (skipped bool, err error) {
	w.reused = map[string]bool{}
	w.dupReport = false
	w.connecting, w.lateUp = map[string]bool{}, map[string]bool{}
	if os.Getenv("VX_C16_DEBUG") != "" {
		log.Printf("---- step %d %+v || %s", w.step, st, w.dump())
	}
	var closed []*vnode.ServerConn
	oldCtl := w.s.control.getConn()
	ctlGone := false

	switch st.Op {
	case "add":
		ip, reuse := "", false
		if st.Flag {
			ip, reuse = w.takeFree()
		}
		if !reuse {
			ip = w.freshIP()
		}
		id := w.freshID()
		dc := "dc1"
		if st.J%4 == 0 {
			dc = "dc2"
		}
		rack := "r" + strconv.Itoa(st.J%2+1)
		toks := vxC16Tokens(w.nextID)
		w.newHost(ip, id, dc, rack, toks)
		w.rows = append(w.rows, vxC16Row{IP: ip, ID: id, DC: dc, Rack: rack, Tokens: toks})
		w.publish()
		w.added = true
		if reuse {
			w.k.Class("add:reused-address")
		}

	case "remove", "move", "replace":
		cands := w.realRows(false)
		if len(cands) == 0 {
			return true, nil
		}
		ri := cands[st.I%len(cands)]
		row := w.rows[ri]
		h := w.hostByRow(row)
		if h == nil {
			return true, nil
		}
		isCtl := h == w.ctl
		if isCtl && w.slow {
			return true, nil
		}
		killIt := st.Flag || isCtl || st.Op == "replace"
		if isCtl && st.Op != "replace" && !w.alternative(h) {
			return true, nil
		}
		if st.Op == "remove" && len(cands) == 1 {
			return true, nil
		}
		// order: first the cluster's new state (who accepts connections, what is reported), only then
		// do the old node's connections die - the driver may react to that at once
		if st.Op != "replace" {
			w.setAlive(h, false)
		}
		switch st.Op {
		case "remove":
			w.dropRow(ri)
			w.release(row.IP)
		case "move":
			nip, reuse := "", false
			if st.J%3 == 0 {
				nip, reuse = w.takeFree()
			}
			if !reuse {
				nip = w.freshIP()
			}
			w.newHost(nip, row.ID, row.DC, row.Rack, row.Tokens)
			for j := range w.rows {
				if w.rows[j].ID == row.ID && !w.rows[j].Dup {
					w.rows[j].IP = nip
				}
			}
			w.release(row.IP)
			if reuse {
				w.k.Class("move:reused-address")
			}
		case "replace":
			nid := w.freshID()
			w.newHost(row.IP, nid, row.DC, row.Rack, vxC16Tokens(w.nextID)) // from now on dials reach the new node
			h.alive = false
			w.dropRow(ri)
			w.rows = append(w.rows, vxC16Row{IP: row.IP, ID: nid, DC: row.DC, Rack: row.Rack, Tokens: vxC16Tokens(w.nextID)})
		}
		w.publish()
		if w.added {
			w.changed = true
		}
		if killIt {
			closed = w.kill(h)
			ctlGone = isCtl
			w.lostNode(h)
			w.k.Class(st.Op + ":node-dies")
		}
		if isCtl {
			w.k.Class(st.Op + ":control-node")
		}

	case "invalid":
		kinds := []string{"norack", "nodc", "notokens", "noid", "allnull"}
		if st.Flag {
			var cands []int
			for _, i := range w.realRows(true) {
				if h := w.hostByRow(w.rows[i]); h != nil && h != w.ctl {
					cands = append(cands, i)
				}
			}
			if len(cands) == 0 {
				return true, nil
			}
			i := cands[st.I%len(cands)]
			kd := kinds[st.J%3]
			if st.J == 5 {
				kd = "noaddr" // peer null and rpc_address 0.0.0.0: nothing to connect to
			}
			w.rows[i].Kind = kd
			w.k.Class("invalid:existing-node:" + kd)
			if w.added {
				w.changed = true
			}
		} else {
			kd := kinds[st.J%5]
			if st.J == 5 {
				kd = "noaddr"
			}
			w.rows = append(w.rows, vxC16Row{IP: w.freshIP(), ID: w.freshID(), DC: "dc1", Rack: "r1", Tokens: vxC16Tokens(w.nextID), Kind: kd, Fresh: true})
			w.k.Class("invalid:new-row:" + kd)
		}
		w.publish()

	case "peerflip":
		// A node keeps the address clients connect to (rpc_address) and is reported under another
		// node-to-node address; a refresh tells the driver, a status event names the node by the new
		// address, then the node is reported under its single address again and a second refresh
		// follows ("peermove" leaves the two-address state in place instead).
		if w.peersErr || w.slow {
			return true, nil
		}
		var cands []int
		for _, i := range w.realRows(true) {
			if h := w.hostByRow(w.rows[i]); h != nil && h != w.ctl {
				cands = append(cands, i)
			}
		}
		if len(cands) == 0 {
			return true, nil
		}
		id := w.rows[cands[st.I%len(cands)]].ID
		setPeer := func(p string) {
			for j := range w.rows {
				if w.rows[j].ID == id {
					w.rows[j].Peer = p
				}
			}
			w.publish()
		}
		w.nextPeer++
		setPeer("172.16.0." + strconv.Itoa(w.nextPeer%250+1))
		if w.added {
			w.changed = true
		}
		if err := w.doRefresh(); err != nil {
			return false, err
		}
		if err := w.settle("peerflip: refresh after the node-to-node address changed", nil); err != nil {
			return false, err
		}
		if m := w.ring[vxC16Dashed(id)]; m != nil && st.J%3 != 0 {
			w.statusEvent(m, "DOWN")
			if err := w.settle("peerflip: DOWN event for the new node-to-node address", nil); err != nil {
				return false, err
			}
			w.k.Class("peerflip:down-event")
			if st.J%3 == 1 {
				w.statusEvent(m, "UP")
				if err := w.settle("peerflip: UP event for the new node-to-node address", nil); err != nil {
					return false, err
				}
				w.k.Class("peerflip:up-event")
			}
			w.connecting, w.lateUp = map[string]bool{}, map[string]bool{}
		}
		setPeer("")
		if err := w.doRefresh(); err != nil {
			return false, err
		}
		w.k.Class("peerflip")

	case "peermove":
		// the two-address state persists over the following steps: a node keeps the address clients
		// connect to and is reported under another node-to-node address (the driver learns it from the
		// next refresh, or from system.local when the control connection moves there); Flag: back to one address
		var cands []int
		for _, i := range w.realRows(true) {
			if h := w.hostByRow(w.rows[i]); h != nil && h != w.ctl {
				cands = append(cands, i)
			}
		}
		if len(cands) == 0 || w.slow {
			return true, nil
		}
		id := w.rows[cands[st.I%len(cands)]].ID
		np := ""
		if !st.Flag || w.rows[cands[st.I%len(cands)]].Peer == "" {
			w.nextPeer++
			np = "172.16.0." + strconv.Itoa(w.nextPeer)
		}
		for j := range w.rows {
			if w.rows[j].ID == id {
				w.rows[j].Peer = np
			}
		}
		w.publish()
		if w.added {
			w.changed = true
		}
		w.k.Class("peermove")

	case "dup":
		cands := w.realRows(true)
		if len(cands) == 0 {
			return true, nil
		}
		r := w.rows[cands[st.I%len(cands)]]
		r.Dup = true
		if !st.Flag {
			r.IP = w.freshIP()
		}
		w.rows = append(w.rows, r)
		w.publish()

	case "heal":
		var out []vxC16Row
		for _, r := range w.rows {
			if r.Fresh || r.Dup {
				continue
			}
			r.Kind = ""
			out = append(out, r)
		}
		w.rows = out
		w.publish()

	case "refresh":
		if err := w.doRefresh(); err != nil {
			return false, err
		}
		if w.peersErr {
			w.k.Class("refresh:fails")
		}

	case "peerserr":
		w.peersErr = st.Flag
		if st.Flag {
			w.cl.SetPeersErr(&cqlspec.Response{Kind: "ERROR", Code: cqlspec.ErrServer, Message: "scripted failure of system.peers"})
		} else {
			w.cl.SetPeersErr(nil)
		}

	case "events":
		if len(st.Evs) == 0 {
			return true, nil
		}
		mids := make([]string, 0, len(w.ring))
		ringIPs := map[string]bool{}
		for id, m := range w.ring {
			mids = append(mids, id)
			ringIPs[m.addr()] = true // events name a node by its node-to-node address
		}
		sort.Strings(mids)
		var unknownReported []string
		for _, r := range w.rows {
			if !ringIPs[r.peerAddr()] {
				unknownReported = append(unknownReported, r.peerAddr())
			}
		}
		var frames []frame
		status := map[string]string{}
		var order []string
		topo := false
		for _, e := range st.Evs {
			ip := ""
			cls := ""
			switch {
			case e.Who == 0 && len(mids) > 0:
				ip, cls = w.ring[mids[e.Sel%len(mids)]].addr(), "known"
			case e.Who <= 1 && len(unknownReported) > 0:
				ip, cls = unknownReported[e.Sel%len(unknownReported)], "reported-unknown"
			default:
				ip, cls = "10.0.9."+strconv.Itoa(e.Sel%200+1), "nobody"
			}
			w.k.Class("event:" + e.Kind + ":" + cls)
			nip := net.ParseIP(ip).To4()
			switch e.Kind {
			case "UP", "DOWN":
				frames = append(frames, &statusChangeEventFrame{change: e.Kind, host: nip, port: 9042})
				if _, ok := status[ip]; !ok {
					order = append(order, ip)
				}
				status[ip] = e.Kind
			default:
				frames = append(frames, &topologyChangeEventFrame{change: e.Kind, host: nip, port: 9042})
				topo = true
			}
		}
		pending := topo && !w.c.DisTopo
		if w.c.DisStatus {
			order = nil // status events are ignored altogether
		}
		for _, ip := range order {
			if !ringIPs[ip] {
				if status[ip] == "UP" {
					pending = true // unknown node comes up => the driver must look at the cluster again
				}
				continue
			}
			for _, m := range w.ring {
				if m.addr() == ip {
					if status[ip] == "DOWN" {
						m.up, m.via = false, nil
					} else if !m.up {
						w.connect(m) // an UP for a connected host changes nothing
						if m.up {
							w.connecting[w.idOf(m)] = true
						}
					}
				}
			}
		}
		w.s.handleNodeEvent(frames)
		if pending {
			// the refresh is debounced by 1 s; refreshRing() runs it now and cancels the timer
			if err := w.doRefresh(); err != nil {
				return false, err
			}
			w.k.Class("events:trigger-refresh")
		}

	case "ctlloss":
		if oldCtl == nil {
			return true, nil
		}
		var target *vnode.ServerConn
		for _, sc := range w.ctl.n.Conns() {
			if net.Conn(sc.Client) == oldCtl.conn.conn {
				target = sc
			}
		}
		if target == nil {
			return false, fmt.Errorf("step %d: harness cannot find the node side of the control connection", w.step)
		}
		target.Close()
		closed = append(closed, target)
		ctlGone = true

	case "crash":
		var cands []*vxC16Host
		for _, h := range w.hosts {
			if h.alive && w.cur[h.ip] == h {
				cands = append(cands, h)
			}
		}
		if len(cands) == 0 {
			return true, nil
		}
		h := cands[st.I%len(cands)]
		if h == w.ctl && (w.slow || !w.alternative(h)) {
			return true, nil
		}
		closed = w.kill(h)
		w.lostNode(h)
		ctlGone = h == w.ctl
		if ctlGone {
			w.k.Class("crash:control-node")
		}

	case "restart":
		var cands []*vxC16Host
		for _, h := range w.hosts {
			if h.alive || w.cur[h.ip] != h {
				continue
			}
			for _, r := range w.rows {
				if r.ID == h.id && r.IP == h.ip && !r.Dup {
					cands = append(cands, h)
					break
				}
			}
		}
		if len(cands) == 0 {
			return true, nil
		}
		h := cands[st.I%len(cands)]
		w.setAlive(h, true)

	case "retick":
		// one tick of Session.reconnectDownedHosts (ReconnectInterval): pool.addHost for every host that is not up
		n := 0
		for _, m := range w.ring {
			if !m.up && w.isAlive(m.ip) {
				w.connect(m)
				n++
			}
		}
		hs := w.s.ring.allHosts()
		sort.Slice(hs, func(i, j int) bool { return hs[i].HostID() < hs[j].HostID() })
		for _, h := range hs {
			if !h.IsUp() {
				w.s.pool.addHost(h)
			}
		}
		if n > 0 {
			w.k.Class("retick:reconnects")
		}

	case "query":
		w.mu.Lock()
		w.served = nil
		w.mu.Unlock()
		qerr := w.s.Query("LIST c16 step " + strconv.Itoa(w.step)).Exec()
		anyUp := false
		upIPs := map[string]bool{}
		for _, m := range w.ring {
			if m.up {
				anyUp = true
				upIPs[m.ip] = true
			}
		}
		w.mu.Lock()
		served := append([]string{}, w.served...)
		w.mu.Unlock()
		if anyUp {
			if qerr != nil {
				return false, fmt.Errorf("step %d: query failed with %v although the cluster has connected members || %s", w.step, qerr, w.dump())
			}
			if len(served) != 1 || !upIPs[served[0]] {
				return false, fmt.Errorf("step %d: query was served by %v, which is not (exactly one of) the connected members of the cluster || %s", w.step, served, w.dump())
			}
			w.k.Class("query:served")
		} else {
			if qerr == nil || len(served) != 0 {
				return false, fmt.Errorf("step %d: query result %v served by %v although no member of the cluster is connected || %s", w.step, qerr, served, w.dump())
			}
			w.k.Class("query:no-hosts")
		}

	default:
		return true, nil
	}

	if ctlGone {
		if err := w.controlMoved(oldCtl); err != nil {
			return false, err
		}
	}
	return false, w.settle(st.Op, closed)
}

// ---------------------------------------------------------------------------------------------
// running a case

func vxC16Policy(i int) HostSelectionPolicy {
	switch i {
	case 1:
		return TokenAwareHostPolicy(RoundRobinHostPolicy())
	case 2:
		return DCAwareRoundRobinPolicy("dc1")
	case 3:
		return TokenAwareHostPolicy(DCAwareRoundRobinPolicy("dc1"))
	case 4:
		return RackAwareRoundRobinPolicy("dc1", "r1")
	}
	return RoundRobinHostPolicy()
}

// ---------------------------------------------------------------------------------------------
// the slow variant: real EVENT frames through the control connection and the 1 s debouncers

type vxC16Round struct {
	Prep  []vxC16Step `json:"prep"`  // silent changes of the cluster (never on the control node)
	Burst []vxC16Ev   `json:"burst"` // EVENT frames pushed back to back
}

type vxC16SlowCase struct {
	Base   vxC16Case    `json:"base"` // Steps unused
	Rounds []vxC16Round `json:"rounds"`
}

func (w *vxC16World) peersReads() int {
	n := 0
	for _, l := range w.cl.AllLogs() {
		if l.Req != nil && l.Req.Kind == "QUERY" && strings.HasPrefix(strings.ToLower(strings.Join(strings.Fields(l.Req.Statement), " ")), "select * from system.peers") {
			n++
		}
	}
	return n
}

func (w *vxC16World) burst(evs []vxC16Ev) error {
	w.reused = map[string]bool{}
	w.dupReport = false
	w.connecting, w.lateUp = map[string]bool{}, map[string]bool{}
	mids := make([]string, 0, len(w.ring))
	ringIPs := map[string]bool{}
	for id, m := range w.ring {
		mids = append(mids, id)
		ringIPs[m.addr()] = true // events name a node by its node-to-node address
	}
	sort.Strings(mids)
	var unknownReported []string
	for _, r := range w.rows {
		if !ringIPs[r.peerAddr()] {
			unknownReported = append(unknownReported, r.peerAddr())
		}
	}
	status := map[string]string{}
	var order []string
	topo := false
	var frames []*cqlspec.Response
	for _, e := range evs {
		ip, cls := "", ""
		switch {
		case e.Who == 0 && len(mids) > 0:
			ip, cls = w.ring[mids[e.Sel%len(mids)]].addr(), "known"
		case e.Who <= 1 && len(unknownReported) > 0:
			ip, cls = unknownReported[e.Sel%len(unknownReported)], "reported-unknown"
		default:
			ip, cls = "10.0.9."+strconv.Itoa(e.Sel%200+1), "nobody"
		}
		typ := "TOPOLOGY_CHANGE"
		if e.Kind == "UP" || e.Kind == "DOWN" {
			typ = "STATUS_CHANGE"
			// the frames of a burst reach the debouncer in wire order: the last status reported for an
			// address is the one that counts (a first version of the driver handled every EVENT frame in a
			// goroutine of its own, and UP, DOWN usually arrived as DOWN, UP)
			if _, ok := status[ip]; !ok {
				order = append(order, ip)
			}
			status[ip] = e.Kind
		} else {
			topo = true
		}
		w.k.Class("frame:" + e.Kind + ":" + cls)
		frames = append(frames, &cqlspec.Response{EventType: typ, Change: e.Kind, AddrHex: fmt.Sprintf("%x", []byte(net.ParseIP(ip).To4())), Port: 9042})
	}
	if len(frames) == 0 {
		return nil
	}
	before := w.peersReads()
	start := time.Now()
	for _, f := range frames {
		if w.ctl.n.SendEvent(f) != 1 {
			return fmt.Errorf("harness: the control node has not exactly one registered connection")
		}
	}
	pending := topo && !w.c.DisTopo
	if w.c.DisStatus {
		order = nil // status events are ignored altogether
	}
	for _, ip := range order {
		if !ringIPs[ip] {
			if status[ip] == "UP" {
				pending = true
			}
			continue
		}
		for _, m := range w.ring {
			if m.addr() == ip {
				if status[ip] == "DOWN" {
					m.up, m.via = false, nil
				} else if !m.up {
					w.connect(m)
					if m.up {
						w.connecting[w.idOf(m)] = true
					}
				}
			}
		}
	}
	if pending && !w.peersErr {
		w.modelRefresh(w.actualAddrs())
	}
	if err := w.settle(fmt.Sprintf("burst of %d EVENT frames", len(frames)), nil); err != nil {
		return err
	}
	// let both debouncers run out (1 s each), then count the refreshes the burst caused
	if d := 2600*time.Millisecond - time.Since(start); d > 0 {
		time.Sleep(d)
	}
	reads := w.peersReads() - before
	if reads > 2 {
		return fmt.Errorf("round %d: a burst of %d EVENT frames caused %d reads of system.peers (more than 2 refreshes) || %s", w.step, len(frames), reads, w.dump())
	}
	if pending && reads < 1 {
		return fmt.Errorf("round %d: the burst contained a topology change or an UP for an unknown node but system.peers was not read again within 2.6 s || %s", w.step, w.dump())
	}
	w.k.Class(fmt.Sprintf("burst:frames=%d:refreshes=%d", len(frames), reads))
	return w.settle("after the debouncers ran out", nil)
}

func vxC16SlowOnce(c *vxC16SlowCase, k *vstats.Case, label bool) error {
	w, err := vxC16Start(&c.Base, k)
	if err != nil {
		return err
	}
	defer w.stop()
	w.slow = true
	if !label {
		w.k = &vstats.Case{}
	}
	w.step = -1
	if err := w.settle("session creation", nil); err != nil {
		return err
	}
	nt := false
	for i, r := range c.Rounds {
		w.step = i
		changed := false
		for _, st := range r.Prep {
			switch st.Op {
			case "add", "remove", "move", "crash", "restart", "invalid":
			default:
				continue
			}
			if st.Op == "invalid" && st.J%5 == 3 {
				st.J = 0 // rows without host_id: see the known finding of the fast variant
			}
			skipped, err := w.apply(st)
			if skipped {
				continue
			}
			w.k.Class("prep:" + st.Op)
			if err != nil {
				return err
			}
			changed = changed || st.Op == "add" || st.Op == "remove" || st.Op == "move"
		}
		topo := false
		for _, e := range r.Burst {
			if e.Kind != "DOWN" {
				topo = true
			}
		}
		if err := w.burst(r.Burst); err != nil {
			return err
		}
		if changed && topo && len(r.Burst) >= 2 {
			nt = true
		}
	}
	if label && nt {
		k.NonTrivial()
	}
	return nil
}

func vxC16DrawSlow(t *rapid.T) interface{} {
	salt := rapid.Uint64().Draw(t, "salt")
	c := &vxC16SlowCase{Base: vxC16Case{
		Proto:  rapid.SampledFrom([]int{3, 4}).Draw(t, "proto"),
		N0:     2 + vxC16Pick(t, "n0", 3, salt, 1000),
		Policy: vxC16Pick(t, "policy", 5, salt, 1001),
	}}
	c.Base.DisStatus = vxC16Pick(t, "nostatus", 3, salt, 1005) == 0
	c.Base.DisTopo = !c.Base.DisStatus && vxC16Pick(t, "notopo", 4, salt, 1006) == 0
	nr := rapid.IntRange(1, 2).Draw(t, "rounds")
	prepOps := []string{"add", "add", "remove", "move", "crash", "restart", "invalid"}
	kinds := []string{"UP", "DOWN", "UP", "NEW_NODE", "REMOVED_NODE", "MOVED_NODE", "NEW_NODE"}
	whos := []int{0, 0, 1, 1, 1, 2}
	for r := 0; r < nr; r++ {
		var rd vxC16Round
		np := rapid.IntRange(0, 4).Draw(t, "nprep")
		for i := 0; i < np; i++ {
			pos := 100*r + i
			rd.Prep = append(rd.Prep, vxC16Step{Op: prepOps[vxC16Pick(t, "op", len(prepOps), salt, pos*8)],
				I: vxC16Pick(t, "i", 8, salt, pos*8+1), J: vxC16Pick(t, "j", 6, salt, pos*8+2), Flag: rapid.Bool().Draw(t, "dies")})
		}
		ne := rapid.IntRange(1, 8).Draw(t, "nev")
		for i := 0; i < ne; i++ {
			pos := 100*r + 50 + i
			rd.Burst = append(rd.Burst, vxC16Ev{Kind: kinds[vxC16Pick(t, "kind", len(kinds), salt, pos*8)],
				Who: whos[vxC16Pick(t, "who", len(whos), salt, pos*8+1)], Sel: vxC16Pick(t, "sel", 10, salt, pos*8+2)})
		}
		c.Rounds = append(c.Rounds, rd)
	}
	return c
}

// TestVxC16EventFrames: EVENT frames on the wire, eventDebouncer and refreshDebouncer at their real 1 s.
func TestVxC16EventFrames(t *testing.T) {
	vx.Check(t, vx.Prop{
		ID: "C16", Part: "TestVxC16EventFrames",
		Rule: "1..2 rounds of: 0..4 silent changes of the cluster (add / remove / move / crash / restart / invalid row; never the control node, no address reuse), then a burst of 1..8 EVENT frames (STATUS_CHANGE UP/DOWN, TOPOLOGY_CHANGE NEW_NODE/REMOVED_NODE/MOVED_NODE for known, reported-but-unknown and non-existent addresses; one status per address) pushed back to back on the control connection; non-trivial = the cluster membership changed and the burst has >= 2 frames including one that must trigger a refresh; distinct by the whole case",
		Draw: vxC16DrawSlow,
		New:  func() interface{} { return &vxC16SlowCase{} },
		Run: vxC16Budget(func(ci interface{}, k *vstats.Case) error {
			c := ci.(*vxC16SlowCase)
			err := vxC16SlowOnce(c, k, true)
			if err == nil {
				return nil
			}
			if _, ok := err.(*vx.KnownErr); ok || strings.HasPrefix(err.Error(), "harness:") {
				return err
			}
			if atomic.LoadInt32(&vxC16SeenFailure) != 0 {
				return err
			}
			for i := 0; i < 2; i++ {
				if err2 := vxC16SlowOnce(c, k, false); err2 != nil {
					atomic.StoreInt32(&vxC16SeenFailure, 1)
					return err2
				}
			}
			k.Class("UNCONFIRMED-FAILURE")
			return nil
		}),
	})
}

func vxC16Start(c *vxC16Case, k *vstats.Case) (*vxC16World, error) {
	w := &vxC16World{c: c, k: k, dial: map[string]bool{}, cur: map[string]*vxC16Host{}, ring: map[string]*vxC16Member{}, reject: map[int]bool{}, reused: map[string]bool{},
		connecting: map[string]bool{}, lateUp: map[string]bool{}}
	for _, o := range c.RejectIP {
		if o != 1 {
			w.reject[o] = true
		}
	}
	// goroutines of earlier cases never count as activity of this session
	w.baseline = map[string]bool{}
	_, w.baseline = w.transients(true)

	w.cl = vnode.NewCluster(nil)
	n0 := c.N0
	if n0 < 1 {
		n0 = 1
	}
	for i := 0; i < n0; i++ {
		ip := w.freshIP()
		id := w.freshID()
		dc := "dc1"
		if i > 0 && i%3 == 2 {
			dc = "dc2"
		}
		rack := "r" + strconv.Itoa(i%2+1)
		toks := vxC16Tokens(w.nextID)
		w.newHost(ip, id, dc, rack, toks)
		w.rows = append(w.rows, vxC16Row{IP: ip, ID: id, DC: dc, Rack: rack, Tokens: toks})
	}
	w.publish()
	proto := c.Proto
	if proto < 3 || proto > 4 {
		proto = 4
	}
	cfg := vxClusterConfig(w.cl, proto, func(cfg *ClusterConfig) {
		cfg.PoolConfig.HostSelectionPolicy = vxC16Policy(c.Policy)
		cfg.Events.DisableNodeStatusEvents = c.DisStatus
		cfg.Events.DisableTopologyEvents = c.DisTopo
		cfg.Dialer = w
		if os.Getenv("VX_C16_DEBUG") != "" {
			cfg.Logger = log.New(os.Stderr, "drv ", log.Lmicroseconds)
		}
		if len(w.reject) > 0 || c.RejectDC {
			cfg.HostFilter = HostFilterFunc(func(h *HostInfo) bool { return !w.filtered(h.ConnectAddress().String(), h.DataCenter()) })
		}
	})
	s, err := cfg.CreateSession()
	if err != nil {
		return nil, fmt.Errorf("harness: CreateSession: %v", err)
	}
	w.s = s
	w.ctl = w.cur["10.0.0.1"]
	w.modelRefresh(nil)
	return w, nil
}

func (w *vxC16World) stop() {
	done := make(chan struct{})
	go func() { w.s.Close(); close(done) }()
	select {
	case <-done:
	case <-time.After(5 * time.Second):
		// Close hanging is C17's subject, not C16's
	}
}

func vxC16RunOnce(c *vxC16Case, k *vstats.Case, label bool) error {
	w, err := vxC16Start(c, k)
	if err != nil {
		return err
	}
	defer w.stop()
	if !label {
		w.k = &vstats.Case{}
	}
	w.step = -1
	if err := w.settle("session creation", nil); err != nil {
		return err
	}
	applied := 0
	for i, st := range c.Steps {
		w.step = i
		skipped, err := w.apply(st)
		if skipped {
			w.k.Class("skipped:" + st.Op)
			continue
		}
		applied++
		w.k.Class("op:" + st.Op)
		if err == errVxC16Stop {
			w.k.Class("stopped:unexpected-control-node-while-peers-unreadable")
			break
		}
		if err == errVxC16StopDup {
			w.k.Class("stopped:disagreement-while-duplicate-host-id-rows-are-reported")
			break
		}
		if err != nil {
			return err
		}
	}
	if label {
		if w.confirmed {
			k.NonTrivial()
		}
		if len(w.reject) > 0 || c.RejectDC {
			k.Class("cfg:host-filter")
		}
		k.Class("cfg:policy=" + strconv.Itoa(c.Policy))
		if c.DisStatus {
			k.Class("cfg:status-events-disabled")
		}
		if c.DisTopo {
			k.Class("cfg:topology-events-disabled")
		}
		switch {
		case applied >= 8:
			k.Class("applied>=8")
		case applied >= 4:
			k.Class("applied 4..7")
		default:
			k.Class("applied<4")
		}
	}
	return nil
}

func vxC16Run(ci interface{}, k *vstats.Case) error {
	c := ci.(*vxC16Case)
	err := vxC16RunOnce(c, k, true)
	if err == nil {
		return nil
	}
	if _, ok := err.(*vx.KnownErr); ok {
		k.Class("ends-in-known-defect")
		return err
	}
	if strings.HasPrefix(err.Error(), "harness:") {
		return err
	}
	// a disagreement that lasted the whole watchdog counts only when it repeats: run the same history
	// again, up to two times (the driver shuffles hosts with its own random source, so a genuine
	// defect may need more than one attempt to show again)
	if atomic.LoadInt32(&vxC16SeenFailure) != 0 {
		return err
	}
	for i := 0; i < 2; i++ {
		err2 := vxC16RunOnce(c, k, false)
		if err2 != nil {
			atomic.StoreInt32(&vxC16SeenFailure, 1)
			return err2
		}
	}
	k.Class("UNCONFIRMED-FAILURE")
	return nil
}

var vxC16Ops = []string{
	"add", "add", "add", "add",
	"remove", "remove", "remove",
	"move", "move", "move",
	"replace",
	"invalid", "invalid",
	"dup",
	"peerflip", "peerflip", "peermove", "peermove",
	"heal",
	"refresh", "refresh", "refresh", "refresh", "refresh", "refresh", "refresh",
	"peerserr",
	"events", "events", "events", "events",
	"ctlloss", "ctlloss",
	"crash", "crash", "crash",
	"restart", "restart",
	"retick", "retick",
	"query", "query",
}

// vxC16Pick draws an index in [0,n): rapid's integer generators favour small values, so the drawn
// value is rotated by a per-case, per-position offset (the case stores the result, shrinking still works).
func vxC16Pick(t *rapid.T, label string, n int, salt uint64, pos int) int {
	x := salt + uint64(pos)*0x9E3779B97F4A7C15
	x ^= x >> 30
	x *= 0xBF58476D1CE4E5B9
	x ^= x >> 27
	x *= 0x94D049BB133111EB
	x ^= x >> 31
	return (rapid.IntRange(0, n-1).Draw(t, label) + int(x%uint64(n))) % n
}

func vxC16DrawStep(t *rapid.T, salt uint64, pos int) vxC16Step {
	st := vxC16Step{Op: vxC16Ops[vxC16Pick(t, "op", len(vxC16Ops), salt, pos*16)]}
	switch st.Op {
	case "add":
		st.J = rapid.IntRange(0, 7).Draw(t, "j")
		st.Flag = vxC16Pick(t, "reuse", 3, salt, pos*16+1) == 0
	case "remove", "move":
		st.I = vxC16Pick(t, "i", 8, salt, pos*16+1)
		st.J = vxC16Pick(t, "j", 6, salt, pos*16+2)
		st.Flag = rapid.Bool().Draw(t, "dies")
	case "replace", "crash", "restart":
		st.I = vxC16Pick(t, "i", 8, salt, pos*16+1)
	case "peerflip":
		st.I = vxC16Pick(t, "i", 8, salt, pos*16+1)
		st.J = vxC16Pick(t, "event", 3, salt, pos*16+2)
	case "peermove":
		st.I = vxC16Pick(t, "i", 8, salt, pos*16+1)
		st.Flag = vxC16Pick(t, "back", 3, salt, pos*16+2) == 0
	case "invalid":
		st.I = vxC16Pick(t, "i", 8, salt, pos*16+1)
		st.J = vxC16Pick(t, "kind", 6, salt, pos*16+2)
		st.Flag = rapid.Bool().Draw(t, "existing")
	case "dup":
		st.I = vxC16Pick(t, "i", 8, salt, pos*16+1)
		st.Flag = rapid.Bool().Draw(t, "same_ip")
	case "peerserr":
		st.Flag = vxC16Pick(t, "on", 3, salt, pos*16+1) != 0
	case "events":
		n := rapid.IntRange(1, 4).Draw(t, "nev")
		kinds := []string{"UP", "DOWN", "UP", "DOWN", "NEW_NODE", "REMOVED_NODE", "MOVED_NODE"}
		whos := []int{0, 0, 0, 1, 1, 2}
		for i := 0; i < n; i++ {
			st.Evs = append(st.Evs, vxC16Ev{
				Kind: kinds[vxC16Pick(t, "kind", len(kinds), salt, pos*16+2+3*i)],
				Who:  whos[vxC16Pick(t, "who", len(whos), salt, pos*16+3+3*i)],
				Sel:  vxC16Pick(t, "sel", 10, salt, pos*16+4+3*i),
			})
		}
	}
	return st
}

func vxC16Draw(t *rapid.T) interface{} {
	salt := rapid.Uint64().Draw(t, "salt")
	c := &vxC16Case{
		Proto:  rapid.SampledFrom([]int{3, 4}).Draw(t, "proto"),
		N0:     1 + vxC16Pick(t, "n0", 4, salt, 1000),
		Policy: vxC16Pick(t, "policy", 5, salt, 1001),
	}
	if vxC16Pick(t, "filter", 4, salt, 1002) == 0 {
		n := rapid.IntRange(1, 3).Draw(t, "nrej")
		for i := 0; i < n; i++ {
			c.RejectIP = append(c.RejectIP, 2+vxC16Pick(t, "rej", 8, salt, 1003+i))
		}
		c.RejectDC = rapid.Bool().Draw(t, "rejdc")
	}
	c.DisStatus = vxC16Pick(t, "nostatus", 5, salt, 1005) == 0
	c.DisTopo = vxC16Pick(t, "notopo", 6, salt, 1006) == 0
	n := rapid.IntRange(5, 16).Draw(t, "nsteps")
	for i := 0; i < n; i++ {
		c.Steps = append(c.Steps, vxC16DrawStep(t, salt, i))
	}
	return c
}

// TestVxC16History: synchronous histories (refreshRing / handleNodeEvent called directly).
func TestVxC16History(t *testing.T) {
	vx.Check(t, vx.Prop{
		ID: "C16", Part: "TestVxC16History",
		Rule: "history of 5..16 pre-drawn steps (add / remove / move / replace a node, a node reported under another node-to-node address with its client address kept (within one step: refresh, status event for the new address, back; or persisting over later steps), invalid and duplicate peers rows, heal, refresh, system.peers failure, batches of 1..4 status/topology events for known and unknown addresses, control-connection loss, node crash/restart, reconnect tick, query) over 1..4 initial nodes x 5 policies x optional host filter x Events.DisableNodeStatusEvents / DisableTopologyEvents; steps that do not apply are skipped; non-trivial = a removal, address change, replacement or invalidation of a node happened after an addition and a later successful refresh reported it; distinct by the whole case",
		Draw: vxC16Draw,
		New:  func() interface{} { return &vxC16Case{} },
		Run:  vxC16Budget(vxC16Run),
	})
}
