//go:build verif && go1.21

package lz4

// C18 (codec half, lz4): LZ4Compressor is transparent for every body, speaks
// Cassandra's framing (4-byte big-endian UNCOMPRESSED length + one LZ4 block) in
// both directions, and answers corrupt bodies with an error - never a panic, and
// never with more allocation than the declared length explains.
//
// Reference peer = github.com/pierrec/lz4/v4 used directly + the framing rule
// stated here (the block must yield exactly the prefixed number of bytes), and a
// second, library-free peer from verif.local/cqlspec.

import (
	"bytes"
	"encoding/binary"
	"errors"
	"fmt"
	"os"
	"runtime"
	"runtime/debug"
	"testing"

	plz4 "github.com/pierrec/lz4/v4"
	"pgregory.net/rapid"
	"verif.local/cqlspec"
	"verif.local/vgen"
	"verif.local/vstats"
	"verif.local/vx"
)

const vxC18MaxPrefix = 16 << 20 // prefix-driven allocations are explored up to here

// ---- reference peer -----------------------------------------------------------

var vxErrPeerLength = errors.New("peer: block does not decode to exactly the prefixed length")

// vxPeerDecode: what a Cassandra-style reader does with a compressed body.
// n and part report how far the block itself decoded (for classification).
func vxPeerDecode(in []byte) (out []byte, n int, part []byte, err error) {
	if len(in) < 4 {
		return nil, 0, nil, errors.New("peer: body shorter than the length prefix")
	}
	p := binary.BigEndian.Uint32(in)
	if p > vxC18MaxPrefix {
		return nil, 0, nil, errors.New("peer: prefix above the explored limit")
	}
	blk := in[4:]
	if p == 0 {
		// the LZ4 block of the empty string is the single token 00; a missing
		// block is tolerated too (that is what the driver itself emits)
		if len(blk) == 0 || (len(blk) == 1 && blk[0] == 0) {
			return []byte{}, 0, nil, nil
		}
		return nil, 0, nil, vxErrPeerLength
	}
	buf := make([]byte, p)
	m, e := plz4.UncompressBlock(blk, buf)
	if e != nil {
		return nil, -1, nil, fmt.Errorf("peer: %v", e)
	}
	if m != int(p) {
		return nil, m, buf[:m], vxErrPeerLength
	}
	return buf, m, nil, nil
}

func vxPeerEncode(mode string, x []byte) ([]byte, error) {
	switch mode {
	case "spec-literal":
		return cqlspec.CassandraLZ4Encode(x, false), nil
	case "spec-greedy":
		return cqlspec.CassandraLZ4Encode(x, true), nil
	case "lib-fast", "lib-hc":
		buf := make([]byte, 4+plz4.CompressBlockBound(len(x)))
		var n int
		var err error
		if mode == "lib-fast" {
			n, err = plz4.CompressBlock(x, buf[4:], nil)
		} else {
			n, err = plz4.CompressBlockHC(x, buf[4:], plz4.Level5, nil, nil)
		}
		if err != nil {
			return nil, err
		}
		if n == 0 && len(x) > 0 {
			return nil, fmt.Errorf("peer encoder produced nothing")
		}
		if len(x) == 0 {
			buf[4], n = 0, 1 // canonical empty block
		}
		binary.BigEndian.PutUint32(buf, uint32(len(x)))
		return buf[:4+n], nil
	}
	return nil, fmt.Errorf("unknown peer encoder %q", mode)
}

var vxC18PeerEncoders = []string{"lib-fast", "lib-hc", "spec-literal", "spec-greedy"}

func vxEq(a, b []byte) bool { return len(a) == len(b) && bytes.Equal(a, b) }

func vxDiff(a, b []byte) string {
	n := len(a)
	if len(b) < n {
		n = len(b)
	}
	for i := 0; i < n; i++ {
		if a[i] != b[i] {
			return fmt.Sprintf("len %d vs %d, first difference at %d", len(a), len(b), i)
		}
	}
	return fmt.Sprintf("len %d vs %d, common prefix equal", len(a), len(b))
}

// ---- part 1: transparency and interoperability ----------------------------------

type vxC18RTCase struct {
	Body vgen.BodySpec `json:"body"`
}

func TestVxC18Lz4RoundTrip(t *testing.T) {
	vx.Check(t, vx.Prop{ID: "C18", Part: "TestVxC18Lz4RoundTrip",
		Rule: "body = shape(random|zeros|repeat|lowentropy|text|rows|mixed|farmatch) x size 0..1MiB (tiny/small/medium/large classes and +-3 around codec boundaries) x seed; " +
			"non-trivial: size >= 13 (LZ4 can emit a match) and the driver's output is shorter than the input (compressible); distinct = distinct (shape,size,seed,p)",
		Draw: func(t *rapid.T) interface{} { return &vxC18RTCase{Body: vgen.DrawBody(t, 1<<20, "b")} },
		New:  func() interface{} { return &vxC18RTCase{} },
		Run: func(ci interface{}, k *vstats.Case) error {
			c := ci.(*vxC18RTCase)
			x := c.Body.Bytes()
			orig := append([]byte(nil), x...)
			k.Class("shape=" + c.Body.Kind)
			k.Class("size=" + vgen.SizeClass(len(x)))
			var z LZ4Compressor
			enc, err := z.Encode(x)
			if err != nil {
				return fmt.Errorf("Encode(%d bytes) failed: %v", len(x), err)
			}
			if !vxEq(x, orig) {
				return fmt.Errorf("Encode modified its input")
			}
			if len(enc) < 4 {
				return fmt.Errorf("Encode(%d bytes) returned %d bytes: no room for the length prefix", len(x), len(enc))
			}
			if p := binary.BigEndian.Uint32(enc); int(p) != len(x) {
				return fmt.Errorf("Encode(%d bytes): length prefix is %d, Cassandra expects the uncompressed length %d", len(x), p, len(x))
			}
			if len(x) == 0 {
				k.Class(fmt.Sprintf("empty-body-encoded-as-%d-bytes", len(enc)))
			}
			if len(x) >= 13 && len(enc) < len(x) {
				k.NonTrivial()
				k.Class("compressible")
			} else if len(x) >= 13 {
				k.Class("incompressible")
			}
			// the two reference peers decode what the driver encoded
			got, _, _, err := vxPeerDecode(enc)
			if err != nil {
				return fmt.Errorf("reference peer (pierrec/lz4 + Cassandra framing) cannot decode driver output for %d bytes: %v", len(x), err)
			}
			if !vxEq(got, x) {
				return fmt.Errorf("reference peer decodes driver output to different bytes: %s", vxDiff(got, x))
			}
			got, err = cqlspec.CassandraLZ4Decode(enc, vxC18MaxPrefix)
			if err != nil {
				return fmt.Errorf("independent LZ4 block decoder cannot decode driver output for %d bytes: %v", len(x), err)
			}
			if !vxEq(got, x) {
				return fmt.Errorf("independent decoder decodes driver output to different bytes: %s", vxDiff(got, x))
			}
			// the driver decodes its own output
			encCopy := append([]byte(nil), enc...)
			dec, err := z.Decode(enc)
			if err != nil {
				return fmt.Errorf("Decode(Encode(x)) failed for %d bytes: %v", len(x), err)
			}
			if !vxEq(dec, x) {
				return fmt.Errorf("Decode(Encode(x)) != x: %s", vxDiff(dec, x))
			}
			if !vxEq(enc, encCopy) {
				return fmt.Errorf("Decode modified its input")
			}
			// the driver decodes what peers encode
			for _, mode := range vxC18PeerEncoders {
				pe, err := vxPeerEncode(mode, x)
				if err != nil {
					return fmt.Errorf("harness: peer encoder %s: %v", mode, err)
				}
				// sanity of the harness's own encoders: the other reference must agree
				if chk, err := cqlspec.CassandraLZ4Decode(pe, vxC18MaxPrefix); err != nil || !vxEq(chk, x) {
					return fmt.Errorf("harness: peer encoding %s is not valid per the independent decoder: %v", mode, err)
				}
				dec, err := z.Decode(pe)
				if err != nil {
					return fmt.Errorf("driver cannot decode a valid body from peer %s (%d -> %d bytes): %v", mode, len(x), len(pe), err)
				}
				if !vxEq(dec, x) {
					return fmt.Errorf("driver decodes peer %s body to different bytes: %s", mode, vxDiff(dec, x))
				}
			}
			return nil
		}})
}

// ---- part 2: corrupt bodies ---------------------------------------------------------

type vxC18CorruptCase struct {
	Body vgen.BodySpec `json:"body"`
	Enc  string        `json:"enc"` // driver | one of vxC18PeerEncoders | raw
	Raw  []byte        `json:"raw,omitempty"`
	Mut  string        `json:"mut"`
	A    int           `json:"a"`
	B    int           `json:"b"`
	C    int           `json:"c"`
}

var vxC18Muts = []string{"trunc", "truncAll", "flip", "flip", "flipAll", "prefix", "prefix", "prefix", "append", "none"}

func vxDrawCorrupt(t *rapid.T) *vxC18CorruptCase {
	c := &vxC18CorruptCase{}
	if rapid.IntRange(0, 9).Draw(t, "rawQ") == 0 {
		c.Enc = "raw"
		n := rapid.SampledFrom([]int{0, 1, 2, 3, 4, 5, 6, 8, 12, 40}).Draw(t, "rawLen")
		c.Raw = rapid.SliceOfN(rapid.Byte(), n, n).Draw(t, "raw")
		if n >= 4 && rapid.Bool().Draw(t, "smallPrefix") {
			c.Raw[0], c.Raw[1], c.Raw[2] = 0, 0, 0
		} else if n >= 4 {
			c.Raw[0] = 0 // <= 16 MiB
		}
		c.Mut = "none"
		return c
	}
	c.Enc = rapid.SampledFrom(append([]string{"driver", "driver"}, vxC18PeerEncoders...)).Draw(t, "enc")
	max := 600
	switch rapid.IntRange(0, 9).Draw(t, "sizeQ") {
	case 0, 1:
		max = 70000
	case 2:
		max = 1 << 20
	}
	c.Body = vgen.DrawBody(t, max, "b")
	c.Mut = rapid.SampledFrom(vxC18Muts).Draw(t, "mut")
	switch c.Mut {
	case "trunc":
		c.A = int(rapid.Uint32().Draw(t, "a"))
		if rapid.Bool().Draw(t, "nearEnd") {
			c.A = -1 - rapid.IntRange(0, 12).Draw(t, "fromEnd") // len-1-k
		}
	case "flip":
		c.A = int(rapid.Uint32().Draw(t, "a"))
		if rapid.Bool().Draw(t, "head") {
			c.A = rapid.IntRange(0, 8*12).Draw(t, "aHead") // prefix and first token
		}
		c.B = rapid.SampledFrom([]int{-1, -1, 0, 1}).Draw(t, "more") // extra flips derived from A
	case "prefix":
		c.A = rapid.IntRange(0, 7).Draw(t, "mode")
		switch c.A {
		case 0:
			c.B = rapid.SampledFrom([]int{-8, -5, -4, -3, -2, -1, 1, 2, 3, 4, 5, 8, 64, 255, 256, 4096, 65536}).Draw(t, "delta")
		case 5:
			c.B = int(rapid.Uint32Range(0, vxC18MaxPrefix).Draw(t, "abs"))
		case 6:
			c.B = int(rapid.Uint32Range(0, 0x7fffffff).Draw(t, "hugeLow"))
		}
	case "append":
		c.B = rapid.IntRange(0, 15).Draw(t, "extra")
		c.C = int(rapid.Uint32().Draw(t, "garbageSeed"))
	}
	return c
}

// vxJudge evaluates one possibly-corrupt body. verdict: "" fine, otherwise a
// known-finding id; err: a violation.
func vxJudge(in []byte, measure bool) (verdict string, what string, class string, err error) {
	if len(in) >= 4 {
		if p := binary.BigEndian.Uint32(in); p > vxC18MaxPrefix {
			return "", "", "excluded", nil
		}
	}
	inCopy := append([]byte(nil), in...)
	var m0, m1 runtime.MemStats
	if measure {
		runtime.ReadMemStats(&m0)
	}
	var out []byte
	var derr error
	func() {
		defer func() {
			if r := recover(); r != nil {
				err = fmt.Errorf("Decode panicked on % x...(%d bytes): %v", in[:vxMin(len(in), 24)], len(in), r)
			}
		}()
		out, derr = LZ4Compressor{}.Decode(in)
	}()
	if err != nil {
		return "", "", "panic", err
	}
	if measure {
		runtime.ReadMemStats(&m1)
		var p uint64
		if len(in) >= 4 {
			p = uint64(binary.BigEndian.Uint32(in))
		}
		if d, lim := m1.TotalAlloc-m0.TotalAlloc, p+4*uint64(len(in))+(256<<10); d > lim {
			return "", "", "alloc", fmt.Errorf("Decode of %d bytes with prefix %d allocated %d bytes (bound %d)", len(in), p, d, lim)
		}
	}
	if !vxEq(in, inCopy) {
		return "", "", "mutated", fmt.Errorf("Decode modified its input")
	}
	pOut, pn, pPart, pErr := vxPeerDecode(in)
	sOut, sErr := []byte(nil), error(nil)
	if len(in) >= 4 {
		sOut, sErr = cqlspec.CassandraLZ4Decode(in, vxC18MaxPrefix)
	} else {
		sErr = cqlspec.ErrLZ4Short
	}
	switch {
	case pErr == nil && sErr == nil && !vxEq(pOut, sOut):
		class = "refs-both-accept-differ"
	case (pErr == nil) != (sErr == nil):
		// informational: the two references need not agree on malformed blocks. The one
		// difference met so far: pierrec/lz4 (like lz4-java) accepts match offset 0, which
		// the block format declares invalid.
		class = "refs-disagree-other"
		if pErr == nil && errors.Is(sErr, cqlspec.ErrLZ4ZeroOffset) {
			class = "lib-accepts-zero-offset"
		}
	}
	if pErr == nil {
		if derr != nil {
			return "", "", "peer-ok", fmt.Errorf("driver rejects a body the reference peer decodes (%d bytes -> %d): %v", len(in), len(pOut), derr)
		}
		if !vxEq(out, pOut) {
			return "", "", "peer-ok", fmt.Errorf("driver and reference peer decode the same body differently: %s", vxDiff(out, pOut))
		}
		if class == "" {
			class = "peer-ok"
		}
		return "", "", class, nil
	}
	// the peer rejects the body
	if derr != nil {
		if class == "" {
			class = "both-reject"
		}
		return "", "", class, nil
	}
	p := binary.BigEndian.Uint32(in) // len(in) >= 4 here: shorter inputs make Decode fail or the case is a violation below
	switch {
	case len(in) >= 4 && p == 0 && len(out) == 0 && errors.Is(pErr, vxErrPeerLength):
		// not a violation: /repo/lz4/lz4_test.go asserts "If uncompressed size is zero then nothing is
		// decoded even if present" - the declared size is honoured, the block is ignored
		return "", "", "zero-prefix-nothing-decoded", nil
	case len(in) >= 4 && errors.Is(pErr, vxErrPeerLength) && pn >= 0 && pn < int(p) && vxEq(out, pPart):
		return "C18-lz4-prefix-overstates",
			fmt.Sprintf("prefix says %d bytes, the block decodes to %d: Decode returns the %d bytes and no error", p, pn, len(out)), "known-overstated-prefix", nil
	}
	return "", "", "driver-accepts-corrupt", fmt.Errorf("reference peer rejects the body (%v) but Decode returned %d bytes and no error; input % x... (%d bytes)",
		pErr, len(out), in[:vxMin(len(in), 24)], len(in))
}

func vxMin(a, b int) int {
	if a < b {
		return a
	}
	return b
}

func TestVxC18Lz4Corrupt(t *testing.T) {
	vx.Check(t, vx.Prop{ID: "C18", Part: "TestVxC18Lz4Corrupt",
		Rule: "valid body from the driver or one of four peer encoders (sizes mostly <=600, some to 1MiB), then one corruption: truncate at one/every offset, flip 1-3 bits / every single bit, " +
			"rewrite the length prefix (real+-d, 0, compressed length, 2x, 16MiB, any <=16MiB, >=0x80000000 [excluded, counted]), append garbage; or raw inputs of 0..40 bytes; " +
			"non-trivial: the evaluated input differs from a valid encoding (a corruption happened); distinct = distinct case",
		Draw: func(t *rapid.T) interface{} { return vxDrawCorrupt(t) },
		New:  func() interface{} { return &vxC18CorruptCase{} },
		Run: func(ci interface{}, k *vstats.Case) error {
			c := ci.(*vxC18CorruptCase)
			var enc []byte
			var x []byte
			if c.Enc == "raw" {
				enc = append([]byte(nil), c.Raw...)
				k.Class("mut=raw")
				k.NonTrivial()
			} else {
				x = c.Body.Bytes()
				var err error
				if c.Enc == "driver" {
					enc, err = LZ4Compressor{}.Encode(x)
				} else {
					enc, err = vxPeerEncode(c.Enc, x)
				}
				if err != nil {
					return fmt.Errorf("encoding the base body failed (%s): %v", c.Enc, err)
				}
				k.Class("mut=" + c.Mut)
			}
			var firstKnown error
			var firstErr error
			eval := func(in []byte, measure bool, ctx string) {
				id, what, class, err := vxJudge(in, measure)
				if class == "excluded" {
					k.Excluded("prefix-above-16MiB")
				}
				k.Class("verdict=" + class)
				if err != nil && firstErr == nil {
					firstErr = fmt.Errorf("%s: %v", ctx, err)
				}
				if id != "" && firstKnown == nil {
					firstKnown = vx.Known(id, "%s: %s", ctx, what)
				}
			}
			real := len(x)
			switch c.Mut {
			case "none":
				eval(enc, true, "unmodified")
			case "trunc", "truncAll":
				if c.Mut == "truncAll" && len(enc) <= 600 {
					k.NonTrivial()
					for n := 0; n < len(enc); n++ {
						eval(enc[:n:n], false, fmt.Sprintf("truncated to %d of %d bytes", n, len(enc)))
					}
					break
				}
				n := 0
				if c.A < 0 {
					n = len(enc) + c.A
					if n < 0 {
						n = 0
					}
				} else {
					n = c.A % (len(enc) + 1)
				}
				if n < len(enc) {
					k.NonTrivial()
				}
				eval(enc[:n:n], true, fmt.Sprintf("truncated to %d of %d bytes", n, len(enc)))
			case "flip", "flipAll":
				if c.Mut == "flipAll" && len(enc) <= 160 {
					k.NonTrivial()
					for bit := 0; bit < 8*len(enc); bit++ {
						m := append([]byte(nil), enc...)
						m[bit/8] ^= 1 << uint(bit%8)
						eval(m, false, fmt.Sprintf("bit %d of %d bytes flipped", bit, len(enc)))
					}
					break
				}
				m := append([]byte(nil), enc...)
				nb := 8 * len(m)
				bits := []int{c.A % nb}
				for i := 0; i <= c.B && c.B >= 0; i++ {
					bits = append(bits, (c.A/7+i*131+5)%nb)
				}
				for _, b := range bits {
					m[b/8] ^= 1 << uint(b%8)
				}
				if !vxEq(m, enc) {
					k.NonTrivial()
				}
				eval(m, true, fmt.Sprintf("bits %v of %d bytes flipped", bits, len(enc)))
			case "prefix":
				var p int64
				switch c.A {
				case 0:
					p = int64(real) + int64(c.B)
				case 1:
					p = 0
				case 2:
					p = int64(len(enc) - 4)
				case 3:
					p = 2*int64(real) + 1
				case 4:
					p = vxC18MaxPrefix
				case 5:
					p = int64(c.B)
				case 6:
					p = 0x80000000 + int64(c.B)
				default:
					p = int64(real)
				}
				if p < 0 {
					p = 0
				}
				m := append([]byte(nil), enc...)
				binary.BigEndian.PutUint32(m, uint32(p))
				switch {
				case p == int64(real):
					k.Class("prefix=real")
				case p > vxC18MaxPrefix:
					k.Class("prefix=huge")
					k.NonTrivial()
				case p > int64(real):
					k.Class("prefix=overstates")
					k.NonTrivial()
				default:
					k.Class("prefix=understates")
					k.NonTrivial()
				}
				eval(m, true, fmt.Sprintf("prefix rewritten from %d to %d", real, p))
			case "append":
				g := make([]byte, 1+c.B)
				r := vgen.SplitMix(uint64(c.C))
				r.Fill(g)
				k.NonTrivial()
				eval(append(append([]byte(nil), enc...), g...), true, fmt.Sprintf("%d garbage bytes appended", len(g)))
			default:
				return fmt.Errorf("harness: unknown mutation %q", c.Mut)
			}
			if firstErr != nil {
				return firstErr
			}
			return firstKnown
		}})
}

// ---- capped probe for prefixes above the explored range (not part of the check) ------
//
// VX_PROBE=1 <binary> -test.run TestVxC18Lz4HugePrefixProbe -test.v   (run under ulimit -v)
func TestVxC18Lz4HugePrefixProbe(t *testing.T) {
	if os.Getenv("VX_PROBE") == "" {
		t.Skip("probe only")
	}
	for _, p := range []uint32{64 << 20, 256 << 20, 1 << 30, 0x80000000, 0xffffffff} {
		in := []byte{0, 0, 0, 0, 0x10, 'a'} // valid block holding the single literal 'a'
		binary.BigEndian.PutUint32(in, p)
		var m0, m1 runtime.MemStats
		runtime.ReadMemStats(&m0)
		out, err := LZ4Compressor{}.Decode(in)
		runtime.ReadMemStats(&m1)
		t.Logf("prefix %#x, 6-byte input: allocated %d MiB, returned %d bytes (cap %d MiB), err=%v", p, (m1.TotalAlloc-m0.TotalAlloc)>>20, len(out), cap(out)>>20, err)
		out = nil
		debug.FreeOSMemory()
	}
}
